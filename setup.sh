#!/bin/bash
# Offline set-up: nothing to build (pure Python harness + generated TLA+); verify the tools we rely on.
set -e
cd "$(dirname "$0")"
/venv/bin/python -c "import pydicom, six; import sys; sys.path.insert(0, '/repo'); import pynetdicom2"
command -v tlc >/dev/null || echo "warning: tlc not on PATH (C04/C05 need it)"
mkdir -p evidence replays
echo setup ok
