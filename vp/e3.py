"""Engine E3: real library threads (user threads, one DUL provider thread per association, acceptor
handler threads) run under a baton scheduler that owns every synchronisation operation, the transport
(in-memory pipes) and the clock.  Stateless exploration of all schedules up to a preemption bound
(CHESS style).  See DESIGN.md 2.4."""
import collections
import io
import queue as _realqueue
import sys
import threading
import traceback
import types

from . import e2
from .common import HarnessError

REAL_TIMEOUT = 30.0       # a scheduling hand-off that takes longer than this (real seconds) is a harness failure


class SchedAbort(BaseException):
    """Raised inside library threads to unwind them when an execution is over (or deadlocked)."""


class Deadlock(Exception):
    pass


class T(object):
    def __init__(self, tid, name, fn):
        self.tid, self.name, self.fn = tid, name, fn
        self.baton = threading.Semaphore(0)
        self.state = 'ready'          # ready / blocked / done
        self.cond = None
        self.deadline = None
        self.label = 'spawned'
        self.result = None
        self.exc = None
        self.thread = None
        self.timed_out = False


class Sched(object):
    current = None     # the scheduler of the execution in progress (one per process)

    def __init__(self, prefix=(), horizon=120.0, max_points=20000, low=(), fine=False):
        self.prefix = list(prefix)
        self.fine = fine
        # virtual seconds a starved thread may be held back while others only wait on short polls: per episode, and in total
        # per execution (far below every protocol-level timeout, so that starvation never turns into a spurious time-out)
        self.starve_budget = 0.5
        self.starve_left = self.starve_budget
        self.starve_total = 4.0
        self.low = tuple(low)       # names of threads that run only when no other thread can (starvation schedules)
        self.threads = []
        self.now = 1000.0
        self.ctrl = threading.Semaphore(0)
        self.running = None
        self.points = []          # (number of enabled threads, running thread still enabled, chosen index, label of chosen)
        self.choices = []
        self.aborting = False
        self.deadlock = None
        self.horizon = horizon
        self.max_points = max_points
        self.log = []
        self.overrun = None
        self.fingerprints = set()
        self.t0 = self.now

    # ---- called from library / harness threads
    def me(self):
        me = threading.current_thread()     # (thread idents are reused once a thread has ended: compare objects)
        for t in self.threads:
            if t.thread is me:
                return t
        raise HarnessError('scheduling point reached from a thread the scheduler does not own')

    def owns_current_thread(self):
        me = threading.current_thread()
        return any(t.thread is me for t in self.threads)

    def point(self, label, cond=None, deadline=None):
        """Yield to the scheduler.  cond=None: stay runnable.  Otherwise block until cond() or the (virtual) deadline.
        Returns True when resumed because cond() held (or cond is None), False on timeout."""
        t = self.me()
        if self.aborting:
            raise SchedAbort()
        t.label = label
        if cond is None:
            t.state, t.cond, t.deadline = 'ready', None, None
        else:
            t.state, t.cond, t.deadline = 'blocked', cond, deadline
        t.timed_out = False
        self.ctrl.release()
        if not t.baton.acquire(timeout=REAL_TIMEOUT * 4):
            raise HarnessError('thread %s never got the baton back' % t.name)
        if self.aborting:
            raise SchedAbort()
        return not t.timed_out

    def sleep(self, d):
        self.point('sleep', cond=lambda: False, deadline=self.now + d)

    def spawn(self, fn, name):
        t = T(len(self.threads), name, fn)
        self.threads.append(t)

        def wrapper():
            if not t.baton.acquire(timeout=REAL_TIMEOUT * 4):
                return
            try:
                if self.aborting:
                    raise SchedAbort()
                t.result = fn()
            except SchedAbort:
                t.exc = 'aborted'
            except BaseException as exc:  # noqa
                t.exc = exc
                t.tb = traceback.format_exc()
            finally:
                t.state = 'done'
                t.finished_at = self.now
                self.ctrl.release()
        t.thread = threading.Thread(target=wrapper, name='vp-' + name, daemon=True)
        t.thread.start()
        return t

    # ---- controller side
    def _enabled(self):
        out = []
        for t in self.threads:
            if t.state == 'ready':
                out.append(t)
            elif t.state == 'blocked':
                if t.cond():
                    out.append(t)
                elif t.deadline is not None and t.deadline <= self.now + 1e-9:
                    out.append(t)
        return out

    def run(self):
        """Run one execution to completion following self.prefix, default choice 0 afterwards."""
        Sched.current = self
        try:
            while True:
                if all(t.state == 'done' for t in self.threads):
                    break
                en = self._enabled()
                if not en:
                    dls = [t.deadline for t in self.threads if t.state == 'blocked' and t.deadline is not None]
                    if not dls:
                        self.deadlock = [(t.name, t.label) for t in self.threads if t.state == 'blocked']
                        break
                    self.now = max(self.now, min(dls))
                    if self.now - self.t0 > self.horizon:
                        self.overrun = [(t.name, t.label) for t in self.threads if t.state != 'done']
                        break
                    continue
                if self.low and all(t.name in self.low for t in en):
                    # only starved threads could run.  The other threads may merely be sitting in a short poll (the providers'
                    # 50 ms select): a slow thread is one that is still not scheduled when those polls time out.  Let the
                    # polls expire first, for at most starve_budget virtual seconds per episode (shorter than every
                    # protocol-level timeout, so that starvation never turns into a spurious time-out).
                    polls = [t.deadline for t in self.threads if t.state == 'blocked' and t.deadline is not None and
                             t.name not in self.low and t.deadline - self.now <= 0.0501]
                    if polls and self.starve_left > 0 and self.starve_total > 0:
                        nxt = max(self.now, min(polls))
                        self.starve_left -= max(nxt - self.now, 1e-3)
                        self.starve_total -= max(nxt - self.now, 1e-3)
                        self.now = nxt
                        continue
                # canonical order: the running thread first if still enabled, then ascending ids
                run_en = self.running is not None and self.running in en
                order = ([self.running] if run_en else []) + [t for t in en if t is not self.running]
                if self.low:
                    # starved threads go last (stable): they are picked by default only when nothing else is enabled
                    order = [t for t in order if t.name not in self.low] + [t for t in order if t.name in self.low]
                i = len(self.points)
                if i < len(self.prefix):
                    c = self.prefix[i]
                    if c >= len(order):
                        raise HarnessError('schedule prefix diverged at point %d: choice %d of %d enabled' % (i, c, len(order)))
                else:
                    c = 0
                t = order[c]
                self.points.append((len(order), run_en, c, t.name + ':' + t.label))
                if len(self.points) > self.max_points:
                    self.overrun = [('max_points', len(self.points))]
                    break
                if t.state == 'blocked':
                    t.timed_out = not t.cond()
                t.state = 'running'
                self.running = t
                if t.name in self.low:
                    self.starve_left = self.starve_budget
                t.baton.release()
                if not self.ctrl.acquire(timeout=REAL_TIMEOUT):
                    raise HarnessError('thread %s did not reach a scheduling point within %ds (real time); last label %s' % (
                        t.name, REAL_TIMEOUT, t.label))
        finally:
            self._unwind()
            Sched.current = None
        return self

    def _unwind(self):
        self.aborting = True
        for _ in range(50):
            live = [t for t in self.threads if t.state != 'done']
            if not live:
                break
            for t in live:
                t.baton.release()
            for t in live:
                self.ctrl.acquire(timeout=2.0)
        for t in self.threads:
            t.thread.join(timeout=5.0)
            if t.thread.is_alive():
                raise HarnessError('thread %s could not be unwound' % t.name)


def cur():
    s = Sched.current
    if s is None:
        raise HarnessError('cooperative primitive used outside an execution')
    return s


# --------------------------------------------------------------------------- cooperative primitives

class CoopQueue(object):
    def __init__(self, maxsize=0):
        self.items = collections.deque()

    def put(self, item, block=True, timeout=None):
        cur().point('q.put')
        self.items.append(item)
        if cur().fine:
            # what the putting thread does next may race with what the getting thread does with the item (objects handed
            # over by reference): with this second point the consumer can run before the producer's next statement
            cur().point('q.put.done')

    def get(self, block=True, timeout=None):
        if not block:
            if not self.items:
                raise _realqueue.Empty()
            return self.items.popleft()
        s = cur()
        dl = None if timeout is None else s.now + timeout
        s.point('q.get', cond=lambda: bool(self.items), deadline=dl)
        if not self.items:
            raise _realqueue.Empty()
        return self.items.popleft()

    def empty(self):
        return not self.items

    def qsize(self):
        return len(self.items)


class CoopEvent(object):
    def __init__(self):
        self.flag = False

    def set(self):
        self.flag = True
        s = Sched.current
        if s is not None and not s.aborting:
            s.point('event.set')

    def is_set(self):
        return self.flag

    def wait(self, timeout=None):
        s = cur()
        dl = None if timeout is None else s.now + timeout
        s.point('event.wait', cond=lambda: self.flag, deadline=dl)
        return self.flag


class CoopLock(object):
    """Replacement for threading.Lock inside the library (AEBase.lock): never blocks the baton holder for real."""

    def __init__(self):
        self.held = False

    def acquire(self, blocking=True, timeout=-1):
        s = Sched.current
        if s is None or s.aborting or not s.owns_current_thread():
            # scenario set-up code running on the controller thread: nothing can contend yet
            self.held = True
            return True
        if not blocking:
            if self.held:
                return False
            self.held = True
            return True
        s.point('lock.acquire', cond=lambda: not self.held)
        self.held = True
        return True

    def release(self):
        self.held = False

    def locked(self):
        return self.held

    def __enter__(self):
        self.acquire()
        return self

    def __exit__(self, *a):
        self.release()


class PipeEnd(object):
    """One end of an in-memory full-duplex byte pipe (stands in for a connected TCP socket)."""

    def __init__(self, net, name):
        self.net, self.name = net, name
        self.inq = bytearray()
        self.peer = None
        self.closed = False
        self.eof = False           # peer closed / shut down its sending side
        self.reset = False
        self.sent = bytearray()
        self.seg = None            # max bytes returned by one recv (segmentation), None = all
        self.straddle = None       # k: every recv ends k bytes behind the end of a PDU of the incoming stream whenever possible
        self._delivered = 0
        self._bounds = [0]
        self.corked = bytearray()  # with net.cork: bytes written but not yet delivered (coalescing transport)

    def readable(self):
        return bool(self.inq) or self.eof or self.reset

    def sendall(self, data):
        cur().point('sock.send')
        if self.closed:
            raise OSError(9, 'Bad file descriptor')
        if self.reset:
            raise OSError(104, 'Connection reset by peer')
        self.sent += data
        self.net.wire.append((self.name, bytes(data)))
        if self.net.cork:
            self.corked += data        # delivered when the writer goes idle, reads, or closes: several PDUs arrive in one read
            return
        if self.peer is not None and not self.peer.closed:
            self.peer.inq += data
        elif self.net.fail_send_after_close:
            raise OSError(32, 'Broken pipe')

    def flush(self):
        if self.corked:
            if self.peer is not None and not self.peer.closed:
                self.peer.inq += self.corked
            self.corked = bytearray()

    send = sendall

    def recv(self, n):
        if self.closed:
            raise OSError(9, 'Bad file descriptor')
        self.flush()
        if not self.readable():
            cur().point('sock.recv', cond=self.readable)
        if self.inq:
            k = min(n, len(self.inq))
            if self.seg:
                k = min(k, self.seg)
            if self.straddle is not None and self.peer is not None:
                # framing-aware segmentation: one whole PDU plus `straddle` bytes of the next one per read
                stream = self.peer.sent
                while self._bounds[-1] + 6 <= len(stream):
                    self._bounds.append(self._bounds[-1] + 6 + int.from_bytes(stream[self._bounds[-1] + 2:self._bounds[-1] + 6], 'big'))
                nxt = [b for b in self._bounds if b > self._delivered]
                if nxt and nxt[0] + self.straddle - self._delivered <= k:
                    k = nxt[0] + self.straddle - self._delivered
            self._delivered += k
            out = bytes(self.inq[:k])
            del self.inq[:k]
            return out
        if self.reset:
            raise OSError(104, 'Connection reset by peer')
        return b''

    def close(self):
        if self.closed:
            return
        s = Sched.current
        if s is not None and not s.aborting:
            s.point('sock.close')
        self.flush()
        self.closed = True
        if self.peer is not None:
            self.peer.eof = True
        if self.net.close_error_for and self.name.startswith(self.net.close_error_for):
            # close() has released the connection and reports an error left over from earlier (EIO / ECONNRESET on some systems)
            raise OSError(5, 'Input/output error')

    def shutdown(self, how):
        self.flush()
        if self.peer is not None:
            self.peer.eof = True

    def connect(self, addr):
        self.net.connect(self, addr)

    def makefile(self, *a, **k):
        return io.BytesIO()

    def settimeout(self, t):
        pass

    def setsockopt(self, *a):
        pass

    def fileno(self):
        return -1


class Net(object):
    """The simulated network of one execution: listening application entities and pipes."""

    def __init__(self, sched):
        self.sched = sched
        self.listeners = {}        # (host, port) -> callable(server_end, client_addr) run in a new handler thread
        self.wire = []
        self.ends = []
        self.fail_send_after_close = False
        self.close_error_for = None    # name prefix of the pipe ends whose close() reports an error ('c' clients, 's' servers)
        self.nconn = 0
        self.seg = None
        self.straddle = None
        self.cork = False

    def listen(self, addr, handler):
        self.listeners[addr] = handler

    def socket(self):
        self.nconn += 1
        e = PipeEnd(self, 'c%d' % self.nconn)
        e.seg = self.seg
        e.straddle = self.straddle
        self.ends.append(e)
        return e

    def connect(self, client_end, addr):
        addr = tuple(addr)
        if addr not in self.listeners:
            raise OSError(111, 'Connection refused')
        server_end = PipeEnd(self, 's%d' % self.nconn)
        server_end.seg = self.seg
        server_end.straddle = self.straddle
        self.ends.append(server_end)
        client_end.peer, server_end.peer = server_end, client_end
        handler = self.listeners[addr]
        if hasattr(handler, 'vp_accept'):
            handler.vp_accept(server_end, ('client', self.nconn))
        else:
            self.sched.spawn(lambda: handler(server_end, ('client', self.nconn)), '%s%d' % (getattr(handler, 'vp_name', 'handler'), self.nconn))
        self.sched.point('connect')


class CoopThread(object):
    """What socketserver.ThreadingMixIn.process_request gets for threading.Thread: start() registers the thread with the scheduler."""
    def __init__(self, group=None, target=None, name=None, args=(), kwargs=None, daemon=None):
        self.target, self.args, self.kwargs, self.daemon = target, args, kwargs or {}, daemon
        self.name = name

    def start(self):
        s = cur()
        s.spawn(lambda: self.target(*self.args, **self.kwargs), 'handler%d' % (ADAPTER.net.nconn if ADAPTER.net is not None else len(s.threads)))
        s.point('thread.start')

    def join(self, timeout=None):
        pass

    def is_alive(self):
        return False


def serve_ae(ae):
    """How a connection reaches application entity `ae`: the entity's own process_request() (socketserver.ThreadingMixIn: one
    thread per connection running process_request_thread = finish_request + shutdown_request) is called for every accepted
    connection, in the thread of the connecting side (the accept loop itself does nothing else).  Calling the returned function
    directly gives the per-connection work only (used where a harness wraps it)."""
    def handler(request, client_address):
        try:
            ae.finish_request(request, client_address)
        except Exception as exc:  # handle_error() prints; we record
            ae.__dict__.setdefault('vp_handler_errors', []).append(exc)
        finally:
            ae.shutdown_request(request)

    def accept(request, client_address):
        ae.handle_error = lambda req, addr: ae.__dict__.setdefault('vp_handler_errors', []).append(sys.exc_info()[1])
        ae.process_request(request, client_address)
    handler.vp_accept = accept
    return handler


# --------------------------------------------------------------------------- patches

class _EnvAdapter(object):
    """What e2.Patches' module-level fakes talk to while an E3 execution is in progress."""

    class _Clock(object):
        def time(self):
            return cur().now

        def sleep(self, d):
            cur().sleep(d)
    clock = _Clock()
    net = None

    def select(self, r, w, x, timeout=None):
        if any(s is not None and s.closed for s in r):
            raise ValueError('file descriptor cannot be a negative integer (-1)')
        ready = [s for s in r if s is not None and s.readable()]
        if ready or not timeout:
            return ready, [], []
        s = cur()
        s.point('select', cond=lambda: any(x.readable() for x in r if x is not None), deadline=s.now + timeout)
        return [x for x in r if x is not None and x.readable()], [], []

    def new_socket(self):
        return self.net.socket()


ADAPTER = _EnvAdapter()
_applied = False


def apply_patches():
    global _applied
    e2.Patches.apply()
    e2.Patches.env = ADAPTER
    if _applied:
        return
    from pynetdicom2 import dulprovider, asceprovider, applicationentity
    for mod, name in ((dulprovider, 'queue'), (dulprovider, 'threading'), (asceprovider, 'time'), (applicationentity, 'Lock')):
        if not hasattr(mod, name):
            raise HarnessError('patch target %s.%s missing' % (mod.__name__, name))
    dulprovider.queue = types.SimpleNamespace(Queue=CoopQueue, Empty=_realqueue.Empty)
    dulprovider.threading = types.SimpleNamespace(Event=CoopEvent, Thread=threading.Thread, Lock=threading.Lock,
                                                  local=threading.local, get_ident=threading.get_ident)
    asceprovider.time = types.SimpleNamespace(time=lambda: cur().now, sleep=lambda d: cur().sleep(d))
    applicationentity.Lock = CoopLock
    import socketserver
    if not hasattr(socketserver, 'threading') or not hasattr(socketserver.ThreadingMixIn, 'process_request'):
        raise HarnessError('socketserver.ThreadingMixIn changed: cannot route per-connection threads through the scheduler')
    ns = types.SimpleNamespace(**{k: getattr(threading, k) for k in dir(threading) if not k.startswith('__')})
    ns.Thread = CoopThread
    socketserver.threading = ns

    def start(prov):
        cur().spawn(prov.run, 'dul%d' % len(cur().threads))
        cur().point('thread.start')

    def loop_head(prov):
        from pynetdicom2 import fsm
        s = cur()
        flag = lambda: prov.__dict__.get('_vp_flag', False)
        if flag():
            return True

        def busy():
            if prov.event or prov.dimse_gen is not None or not prov.from_service_user.empty() or flag():
                return True
            sock = prov.dul_socket
            if sock is not None and sock.readable():
                return True
            if len(prov.raw_pdu) >= 6 and len(prov.raw_pdu) >= 6 + int.from_bytes(prov.raw_pdu[2:6], 'big'):
                return True
            return prov.state_machine.current_state == fsm.States.STA_4
        if busy():
            s.point('dul.loop')
        else:
            if prov.dul_socket is not None and hasattr(prov.dul_socket, 'flush'):
                prov.dul_socket.flush()
            # an idle provider polls select() every 50 ms; modelled as blocked until there is something to do or ARTIM is due
            t = prov.timer
            dl = None if t._start_time is None else t._start_time + t._max_seconds + 0.05
            s.point('dul.idle', cond=busy, deadline=dl)
        return flag()
    e2.HOOKS['start'] = start
    e2.HOOKS['loop_head'] = loop_head
    _applied = True


# --------------------------------------------------------------------------- exploration

class Outcome(object):
    def __init__(self, sched, net, results):
        self.points = sched.points
        self.choices = [p[2] for p in sched.points]
        self.deadlock = sched.deadlock
        self.overrun = sched.overrun
        self.elapsed = sched.now - sched.t0
        self.threads = [(t.name, t.state, repr(t.exc) if t.exc is not None and t.exc != 'aborted' else None,
                         None if t.exc == 'aborted' else getattr(t, 'finished_at', sched.now) - sched.t0) for t in sched.threads]
        self.crashed = [(t.name, repr(t.exc), getattr(t, 'tb', '')) for t in sched.threads
                        if t.exc is not None and t.exc != 'aborted']
        self.wire = list(net.wire)
        self.open_ends = [e.name for e in net.ends if not e.closed]
        self.results = results


def execute(scenario, prefix=(), low=(), fine=False):
    """scenario(sched, net) -> dict of named results, filled in by the scenario's threads.  Returns Outcome."""
    apply_patches()
    sched = Sched(prefix, low=low, fine=fine)
    net = Net(sched)
    ADAPTER.net = net
    Sched.current = sched
    results = {}
    scenario(sched, net, results)
    sched.run()
    return Outcome(sched, net, results)


def explore(scenario, bound, on_outcome, max_exec=200000, free_branch=True, root=None, only_root_children=False, count_all=False, low=(), fine=False):
    """All schedules with at most `bound` preemptions (switching away from a thread that could continue).
    on_outcome(outcome) is called for every complete execution.  Returns statistics."""
    stats = {'executions': 0, 'max_points': 0, 'branch_points': 0, 'capped': False, 'configs': set(), 'decisions': 0}
    stack = [root or ([], 0)]
    root_len = len(stack[0][0])
    while stack:
        prefix, used = stack.pop()
        if stats['executions'] >= max_exec:
            stats['capped'] = True
            break
        out = execute(scenario, prefix, low, fine)
        stats['executions'] += 1
        stats['decisions'] += len(out.points)
        stats['max_points'] = max(stats['max_points'], len(out.points))
        for p in out.points:
            stats['configs'].add(p[3])
        if on_outcome(out):
            # the caller has what it needs (a violation to report): the rest of this exploration is not needed
            stats['stopped_early'] = True
            break
        # preemptions used before each point
        cost = 0
        costs = []
        for i, (n, run_en, c, label) in enumerate(out.points):
            costs.append(cost)
            if c != 0 and (run_en or count_all):
                cost += 1
        for i in range(len(prefix), len(out.points)):
            n, run_en, c, label = out.points[i]
            if n <= 1:
                continue
            stats['branch_points'] += 1
            for alt in range(1, n):
                extra = 1 if (run_en or count_all) else 0
                if costs[i] + extra > bound:
                    continue
                if not run_en and not free_branch:
                    continue
                stack.append((out.choices[:i] + [alt], costs[i] + extra))
    stats['configs'] = len(stats['configs'])
    return stats


def first_level(scenario, bound, count_all=False, low=(), fine=False):
    """The default execution plus the list of (prefix, cost) roots of all sub-trees hanging off it - used to spread one
    exploration over worker processes: explore(root=r) for every r, plus the default execution itself."""
    out = execute(scenario, [], low, fine)
    roots = []
    cost = 0
    for i, (n, run_en, c, label) in enumerate(out.points):
        if n > 1:
            for alt in range(1, n):
                extra = 1 if (run_en or count_all) else 0
                if cost + extra <= bound:
                    roots.append((out.choices[:i] + [alt], cost + extra))
        if c != 0 and (run_en or count_all):
            cost += 1
    return out, roots
