"""C04 - the state machine performs the PS3.8 Table 9-10 action and transition in every cell.

Model M (TLA+ generated from the transcription of the standard, checked and dumped by TLC in its
all-cells configuration) is replayed edge by edge against the real fsm.StateMachine of a real
(not running) DULServiceProvider."""
from .. import common, e2, model, ps38

ID = 'C04'
LEVEL = 'model_checking'

EVT_OF = {}


def _variants(evname, role):
    """(label, primitive builder) pairs for the current-PDU slot when the event fires."""
    from pynetdicom2 import pdu as P
    n = int(evname[3:].rstrip('cp'))
    dec = lambda cls, raw: (lambda: cls.decode(raw))
    if n == 3:
        return [('ac', dec(P.AAssociateAcPDU, e2.std_ac()))]
    if n == 4:
        return [('rj111', dec(P.AAssociateRjPDU, e2.std_rj(1, 1, 1))), ('rj232', dec(P.AAssociateRjPDU, e2.std_rj(2, 3, 2)))]
    if n == 6:
        rq = e2.std_rq()
        # (protocol version: a receiver tests bit 0 only, PS3.8 9.3.2 - versions with further bits set are this version too)
        return [('rq', dec(P.AAssociateRqPDU, rq)), ('rq-version-0003', dec(P.AAssociateRqPDU, rq[:6] + b'\x00\x03' + rq[8:])),
                ('rq-version-ffff', dec(P.AAssociateRqPDU, rq[:6] + b'\xff\xff' + rq[8:]))]
    if n == 10:
        CT = '1.2.840.10008.5.1.4.1.1.2'
        data = _store_data()
        cmdpdu = ('pdu', e2.pdata(3, 3, e2.store_cmd()))
        if evname.endswith('c'):
            # third element: how the provider got where it is (configuration; what it processed in Sta6 before the cell's state
            # is set) - the decoder is shared by DT-2 and AR-6 and lives across PDUs, across the release request, and is
            # configured through attributes assigned after construction
            return [('echo-complete', dec(P.PDataTfPDU, e2.pdata(1, 3, e2.echo_cmd()))),
                    ('store-last-data-fragment', dec(P.PDataTfPDU, e2.pdata(3, 2, data)), {'prefix': [cmdpdu], 'expect_data': data}),
                    ('store-last-data-fragment-into-file', dec(P.PDataTfPDU, e2.pdata(3, 2, data)),
                     {'prefix': [cmdpdu], 'store_in_file': [CT], 'expect_data': data}),
                    ('store-last-data-fragment-release-requested-meanwhile', dec(P.PDataTfPDU, e2.pdata(3, 2, data)),
                     {'prefix': [cmdpdu, ('user', ('release_rq',))], 'expect_data': data}),
                    ('store-second-of-two-data-fragments-into-file', dec(P.PDataTfPDU, e2.pdata(3, 2, data[40:])),
                     {'prefix': [cmdpdu, ('pdu', e2.pdata(3, 0, data[:40]))], 'store_in_file': [CT], 'expect_data': data})]
        return [('cmd-fragment', dec(P.PDataTfPDU, e2.pdata(1, 1, e2.echo_cmd()[:20]))),
                ('store-data-fragment-not-last-into-file', dec(P.PDataTfPDU, e2.pdata(3, 0, data[:40])), {'prefix': [cmdpdu], 'store_in_file': [CT]})]
    if n == 12:
        return [('release-rq', dec(P.AReleasePDUBase if False else P.AReleaseRqPDU, e2.std_release()))]
    if n == 13:
        return [('release-rp', dec(P.AReleaseRpPDU, e2.std_release(True)))]
    if n == 16:
        return [('abort%d%d' % sr, dec(P.AAbortPDU, e2.std_abort(*sr))) for sr in ((0, 0), (2, 1), (2, 6))]
    if n == 1:
        return [('assoc_rq', lambda: e2.make_primitive(('assoc_rq',)))]
    if n == 7:
        return [('accept', lambda: e2.make_primitive(('accept',)))]
    if n == 8:
        return [('reject%d%d%d' % t, (lambda t=t: e2.make_primitive(('reject',) + t))) for t in ((1, 1, 1), (2, 3, 2), (1, 2, 7))]
    if n == 9:
        return [('pdata', lambda: next(e2.make_primitive(('pdata', 1))))]
    if n == 11:
        return [('release_rq', lambda: e2.make_primitive(('release_rq',)))]
    if n == 14:
        return [('release_rp', lambda: e2.make_primitive(('release_rp',)))]
    if n == 15:
        return [('abort%d%d' % sr, (lambda sr=sr: e2.make_primitive(('abort',) + sr))) for sr in ((0, 0), (0, 5), (2, 2))]
    if n == 2:
        # transport confirmation follows Evt1 at once: the slot still holds the user's A-ASSOCIATE request
        return [('assoc_rq', lambda: e2.make_primitive(('assoc_rq',)))]
    if n == 19:
        # besides the slot contents: a P-DATA-TF that is a well-formed PDU but useless at DIMSE level is found out by the action
        # of Evt10 (DT-2 / AR-6) and must then be treated as this event is (AA-8 where an association exists)
        bad = [('pdata-bad-control-header', dec(P.PDataTfPDU, e2.pdata(1, 0x04, e2.echo_cmd())), {'through_evt10': True}),
               ('pdata-garbage-command', dec(P.PDataTfPDU, e2.pdata(1, 3, b'\xff' * 9)), {'through_evt10': True})]
    else:
        bad = []
    # events that carry no PDU: the slot holds whatever was there before
    return [('slot-none', lambda: None),
            ('slot-last-sent', lambda: e2.make_primitive(('accept',))),
            ('slot-last-received', dec(P.AAssociateRqPDU, e2.std_rq())),
            ('slot-pdata', dec(P.PDataTfPDU, e2.pdata(1, 3, e2.echo_cmd()))),
            # Sta13 is where the slot can hold an A-ABORT: the user's own request (AA-1 took it there) or the provider's (AA-8)
            ('slot-user-abort', (lambda: e2.make_primitive(('abort', 0, 5))), {'only_sta': (13,), 'same_wire_as': 0}),
            ('slot-provider-abort', (lambda: P.AAbortPDU(source=2, reason_diag=1)), {'only_sta': (13,), 'same_wire_as': 0})] + bad


def _store_data():
    from .. import dsgen
    return dsgen.enc(dsgen.make('b', 3), '1.2.840.10008.1.2')


ALL_EVENTS = ['Evt%d' % i for i in range(1, 20) if i != 10] + ['Evt10c', 'Evt10p']


def _observe(env, prov, before):
    st = env.cur
    env._drain(prov)
    return {'wire': e2.summarize_wire(st['wire']), 'inds': list(st['inds']), 'log': list(st['log']),
            'state': prov.state_machine.current_state + 1, 'timer': prov.timer._start_time,
            'sock': env.sock_state(prov)}


def run_cell(cell):
    """cell = (sta, role, artim, evname, variant index) -> (violations, info)"""
    from pynetdicom2 import fsm
    sta, role, artim, evname, vi, expect = cell
    viol = []
    var = _variants(evname, role)[vi]
    label, build = var[0], var[1]
    cfg = var[2] if len(var) > 2 else {}
    import io
    env = e2.Env(role, [], store_in_file=frozenset(cfg.get('store_in_file', ())),
                 get_file_cb=(lambda ctx, cs: (io.BytesIO(), 0)) if cfg.get('store_in_file') else None)
    prov = env.prov
    sm = prov.state_machine
    prov.event.clear()
    if sta == 1:
        prov.dul_socket = None
        env.sock = None
        env.ever_socket = False
    elif prov.dul_socket is None:
        prov.dul_socket = env.new_socket()
    if cfg.get('prefix') and sta in (6, 7):
        # what the provider processed in the data transfer state before the cell under test
        from pynetdicom2 import pdu as P
        if cfg.get('store_in_file'):
            # the association is established through the real AE-3 / AE-7 first, and the negotiated contexts are handed to the
            # provider when the upper layer hands them over: the acceptor before it answers, the requestor after the A-ASSOCIATE-AC
            # has been indicated to it (a new dictionary assigned to the documented attribute)
            table = dict(prov.accepted_contexts)
            prov.accepted_contexts = {}
            if role == 'rq':
                sm.current_state = 4
                prov.primitive = P.AAssociateAcPDU.decode(e2.std_ac())
                sm.action(2)
                prov.accepted_contexts = dict(table)
            else:
                sm.current_state = 2
                prov.accepted_contexts = dict(table)
                prov.primitive = e2.make_primitive(('accept',))
                sm.action(6)
            env._drain(prov)
        sm.current_state = 5
        for kind, what in cfg['prefix']:
            if kind == 'pdu':
                prov.primitive = P.PDataTfPDU.decode(what)
                sm.action(9)
            else:
                prov.primitive = e2.make_primitive(what)
                sm.action({'release_rq': 10}[what[0]])
        env._drain(prov)
    if cfg.get('only_sta') and sta not in cfg['only_sta']:
        return [], ('skipped', 'n/a')
    sm.current_state = sta - 1
    t0 = env.clock.now
    if artim:
        prov.timer.start()
    env.clock.now += 3.0
    prov.primitive = build()
    user_prim = prov.primitive
    env.cur = env._new_step((evname,))
    n = int(evname[3:].rstrip('cp'))
    exc = None
    try:
        if cfg.get('through_evt10'):
            if sta not in (6, 7):
                return [], ('skipped', 'n/a')
            sm.action(9)
        else:
            sm.action(n - 1)
    except Exception as e:  # noqa
        exc = e
    content_bad = None
    if cfg.get('expect_data') is not None and sta in (6, 7) and exc is None:
        items = [i for i in list(getattr(prov.to_service_user, 'queue', [])) if isinstance(i, tuple)]
        if len(items) == 1:
            msg, pc = items[0]
            ds = msg.data_set
            raw = ds if isinstance(ds, bytes) or ds is None else (ds.seek(0), ds.read())[1]
            if pc != 3 or type(msg).__name__ != 'CStoreRQMessage' or raw is None or not raw.endswith(cfg['expect_data']) or \
                    (cfg.get('store_in_file') and isinstance(ds, bytes)) or str(msg.affected_sop_instance_uid) != '1.2.3.4.5':
                content_bad = (type(msg).__name__, pc, None if raw is None else len(raw), 'bytes' if isinstance(ds, bytes) else type(ds).__name__)
    obs = _observe(env, prov, None)
    where = 'cell %s x Sta%d role=%s artim=%s slot=%s' % (evname, sta, role, artim, label)
    sig = 'c04:%s/Sta%d' % (evname.rstrip('cp') if n != 10 else evname, sta)
    if expect is None:
        # undefined by the standard: error or ignore, but no effect
        changed = []
        if obs['wire']:
            changed.append('wire %r' % (obs['wire'],))
        if obs['inds']:
            changed.append('indication %r' % (obs['inds'],))
        if 'close' in obs['log']:
            changed.append('transport closed')
        if obs['state'] != sta:
            changed.append('state -> Sta%d' % obs['state'])
        if (obs['timer'] is not None) != artim or (artim and obs['timer'] != t0):
            changed.append('timer touched')
        if changed:
            viol.append((sig + ':undefined-has-effect', 'undefined %s has effects: %s (exception: %r)' % (where, '; '.join(changed), exc)))
        return viol, ('undefined', 'raises' if exc else 'ignored')
    outs, (nsta, _, nartim, nconn) = expect
    action = None
    if exc is not None:
        viol.append((sig + ':raises', '%s raised %r; the standard prescribes outputs %r and Sta%d' % (where, exc, list(outs), nsta)))
        return viol, ('defined', 'raised')
    exp_wire = [o[5:] for o in outs if o.startswith('send:')]
    exp_ind = [o[4:] for o in outs if o.startswith('ind:')]
    got_wire = [w[0] for w in obs['wire']]
    if got_wire != [w.replace('(provider)', '') for w in exp_wire]:
        viol.append((sig + ':wire', '%s put %r on the wire, the standard prescribes %r' % (where, obs['wire'], exp_wire)))
    else:
        for w, e in zip(obs['wire'], exp_wire):
            if e == 'A-ABORT(provider)' and w[1] != 2:
                viol.append((sig + ':abort-source', '%s sent A-ABORT with source %d, provider-initiated abort prescribes 2' % (where, w[1])))
            if e == 'A-ABORT' and n == 15 and (w[1], w[2]) != (user_prim.source, user_prim.reason_diag):
                viol.append((sig + ':abort-fields', '%s sent A-ABORT %r, the user asked for (%d, %d)' % (where, w, user_prim.source, user_prim.reason_diag)))
            if e == 'A-ASSOCIATE-RJ' and w[1:] != (user_prim.result, user_prim.source, user_prim.reason_diag):
                viol.append((sig + ':rj-fields', '%s sent %r, the user rejected with (%d, %d, %d)' % (where, w, user_prim.result, user_prim.source, user_prim.reason_diag)))
    got_ind = [i[0] for i in obs['inds']]
    norm = {'A-P-ABORT': 'A-ABORT', 'DIMSE': 'DIMSE'}
    if got_ind != [norm.get(i, i) for i in exp_ind]:
        viol.append((sig + ':indication', '%s indicated %r to the user, the standard prescribes %r' % (where, obs['inds'], exp_ind)))
    elif 'A-ABORT' in exp_ind and n == 16:
        if obs['inds'][0][1:] != (user_prim.source, user_prim.reason_diag):
            viol.append((sig + ':abort-indication-fields', '%s indicated %r for a received A-ABORT (%d, %d)' % (where, obs['inds'][0], user_prim.source, user_prim.reason_diag)))
    elif 'A-ASSOCIATE-RJ' in exp_ind and obs['inds'][0][1:] != (user_prim.result, user_prim.source, user_prim.reason_diag):
        viol.append((sig + ':rj-indication-fields', '%s indicated %r' % (where, obs['inds'][0])))
    if content_bad is not None:
        viol.append((sig + ':indication-content', '%s: the P-DATA indication carries %r (message, context, data set bytes, kind); sent was a C-STORE-RQ on '
                     'context 3 with a %d-byte data set%s' % (where, content_bad, len(cfg['expect_data']), ', to be received into a file' if cfg.get('store_in_file') else '')))
    if ('close' in obs['log']) != ('close' in outs):
        viol.append((sig + ':close', '%s: transport %s, the standard says %s' % (where, 'closed' if 'close' in obs['log'] else 'left open',
                                                                                   'close' if 'close' in outs else 'keep')))
    if 'connect' in outs and not any(isinstance(l, tuple) and l[0] == 'connect' for l in obs['log']):
        viol.append((sig + ':connect', '%s did not issue a transport connect' % where))
    running = obs['timer'] is not None
    if running != nartim:
        viol.append((sig + ':artim', '%s: ARTIM %s afterwards, the standard prescribes %s (outputs %r)' % (
            where, 'running' if running else 'stopped', 'running' if nartim else 'stopped', [o for o in outs if o.startswith('artim')])))
    elif 'artim:start' in outs and obs['timer'] != env.clock.now:
        viol.append((sig + ':artim-not-restarted', '%s: ARTIM was not (re)started (still counting from %r)' % (where, obs['timer'])))
    if obs['state'] != nsta:
        viol.append((sig + ':next-state', '%s moved to Sta%d, the standard prescribes Sta%d' % (where, obs['state'], nsta)))
    if cfg.get('same_wire_as') is not None and not viol:
        # the event carries no PDU: what is sent must not depend on what an earlier event left in the slot
        ref_env = e2.Env(role, [])
        rp = ref_env.prov
        rp.event.clear()
        if rp.dul_socket is None:
            rp.dul_socket = ref_env.new_socket()
        rp.state_machine.current_state = sta - 1
        rp.primitive = _variants(evname, role)[cfg['same_wire_as']][1]()
        ref_env.cur = ref_env._new_step((evname,))
        rp.state_machine.action(n - 1)
        ref = _observe(ref_env, rp, None)
        if ref['wire'] != obs['wire']:
            viol.append((sig + ':stale-slot-on-wire', '%s sent %r; with an empty slot the same event sends %r: what an earlier event left in the '
                         'current-PDU slot went out again' % (where, obs['wire'], ref['wire'])))
    return viol, ('defined', 'ok')


def run_case(case):
    """Replay of one cell (used by --replay)."""
    common.import_repo()
    delta, _ = model.automaton(True)
    sta, role, artim, evname, vi = case['cell']
    conn = 'none' if sta == 1 else 'open'
    expect = delta.get((sta, role, artim, conn), {}).get(evname)
    viol, info = run_cell((sta, role, artim, evname, vi, expect))
    return {'viol': viol, 'case': case}


def main(tier, seed):
    common.import_repo()
    rep = common.Report(ID, tier, seed, LEVEL)
    delta, stats = model.automaton(True)
    ncells = 0
    edges_replayed = 0
    undefined = 0
    outcomes = set()
    for sta in range(1, 14):
        for role in ('rq', 'ac'):
            for artim in (False, True):
                conn = 'none' if sta == 1 else 'open'
                row = delta.get((sta, role, artim, conn), {})
                for evname in ALL_EVENTS:
                    expect = row.get(evname)
                    nvar = len(_variants(evname, role))
                    for vi in range(nvar):
                        if expect is None and vi > 1:
                            continue
                        viol, info = run_cell((sta, role, artim, evname, vi, expect))
                        ncells += 1
                        if expect is None:
                            undefined += 1
                        else:
                            edges_replayed += 1
                        outcomes.add((evname, sta, role, info))
                        for s, m in viol:
                            rep.add(common.Viol(s, m, {'cell': [sta, role, artim, evname, vi]}))
                        if len(rep.samples) < 4 and evname in ('Evt12', 'Evt19') and sta in (7, 2):
                            rep.sample({'cell': [sta, role, artim, evname, vi], 'model_edge': expect, 'result': info})
    model_edges = sum(len(v) for v in delta.values())
    rep.coverage.update({
        'states': stats['tlc_distinct_states'], 'transitions': stats['tlc_edges'],
        'traces_validated_against_impl': edges_replayed,
        'model_edges': model_edges, 'model_edges_replayed_distinct': model_edges,
        'cells_defined_by_standard': ps38.defined_cells(), 'undefined_cell_executions': undefined,
        'evaluations': ncells, 'distinct_nontrivial': len(outcomes),
        'rule': 'TLC enumerates every (state 1..13, role, ARTIM on/off) x 21 events (19 + completing/partial P-DATA) cell of the '
                'generated model; each model edge, and each absent edge (undefined cell), is executed on the real '
                'StateMachine.action() of a real provider object with every applicable content of the current-PDU slot',
        'tlc': stats, 'exhaustive': True,
    })
    rep.assumptions = ['model generated from vp/ps38.py, a transcription of PS3.8 Table 9-10 (123 defined cells), not from fsm.py',
                       'AE-6 always takes the "acceptable" branch; AA-4 indication source unconstrained; for AA-1 on a peer PDU and AA-7 '
                       'any well-formed A-ABORT is accepted', 'provider object is real but its loop is not running (C05 covers the loop)']
    return rep
