"""C03 - PDU framing is independent of how TCP segments the byte stream (E2, differential)."""
import itertools

from .. import common, e2, ref_pdu, pdugen

ID = 'C03'
LEVEL = 'model_checking'
CHUNK = 100


def small_rq():
    return ref_pdu.build(pdugen.assoc(1, [pdugen.app(), pdugen.pcrq(1), pdugen.pcrq(3, '1.2.840.10008.5.1.4.1.1.2'),
                                          pdugen.ui([{'t': 0x51, 'res': 0, 'max': 16384}])], called='A', calling='B'))


def small_ac():
    return ref_pdu.build(pdugen.assoc(2, [pdugen.app(), pdugen.pcac(1), pdugen.pcac(3), pdugen.ui([{'t': 0x51, 'res': 0, 'max': 16384}])],
                                      called='A', calling='B'))


def _store_frags():
    from . import c05
    cmd = c05.cmd(True)
    return [e2.pdata(3, 3, cmd), e2.pdata(3, 0, c05.DATASET[:12]), e2.pdata(3, 2, c05.DATASET[12:])]


def _find_rsps():
    import pydicom
    from .. import dsgen
    out = []
    for st, with_ds in ((0xFF00, True), (0xFF00, True), (0x0000, False)):
        ds = pydicom.Dataset()
        ds.AffectedSOPClassUID = '1.2.840.10008.1.1'
        ds.CommandField = 0x8020
        ds.MessageIDBeingRespondedTo = 3
        ds.CommandDataSetType = 0x0001 if with_ds else 0x0101
        ds.Status = st
        body = dsgen.enc(ds, '1.2.840.10008.1.2')
        ds.CommandGroupLength = len(body)
        out.append(e2.pdata(1, 3, dsgen.enc(ds, '1.2.840.10008.1.2')))
        if with_ds:
            out.append(e2.pdata(1, 2, b'\x10\x00\x10\x00\x04\x00\x00\x00AB^C'))
    return out


def conversations():
    """name -> (role, [round...]); round = (list of PDUs forming one peer burst, [user reactions])."""
    echo = e2.pdata(1, 3, e2.echo_cmd())
    rq, ac = small_rq(), small_ac()
    rel, relp = e2.std_release(), e2.std_release(True)
    ab = e2.std_abort(2, 1)
    U = lambda *spec: ('user', spec)
    C = {}
    C['ac-echo'] = ('ac', [([rq], [U('accept')]), ([echo], [U('pdata', 2)]), ([rel], [U('release_rp')]), (['CLOSE'], [])])
    C['ac-store3'] = ('ac', [([rq], [U('accept')]), (_store_frags(), [U('pdata', 1)]), ([rel], [U('release_rp')]), (['CLOSE'], [])])
    C['ac-two-echo'] = ('ac', [([rq], [U('accept')]), ([echo, echo], [U('pdata', 1), U('pdata', 1)]), ([ab], [])])
    C['ac-rq-abort'] = ('ac', [([rq, ab], [])])
    C['ac-rq-close'] = ('ac', [([rq, 'CLOSE'], [])])
    C['ac-pdata2-abort'] = ('ac', [([rq], [U('accept')]), ([echo, echo, ab], [])])
    C['ac-release-by-peer'] = ('ac', [([rq], [U('accept')]), ([echo, rel], [U('pdata', 1), U('release_rp')]), (['CLOSE'], [])])
    C['ac-release-collision'] = ('ac', [([rq], [U('accept'), U('release_rq')]), ([rel, relp], [U('release_rp')]), (['CLOSE'], [])])
    C['ac-reject'] = ('ac', [([rq], [U('reject', 1, 1, 3)]), (['CLOSE'], [])])
    C['ac-unknown-pdu'] = ('ac', [([rq], [U('accept')]), ([echo, e2.unknown_pdu(), echo], [])])
    C['rq-echo'] = ('rq', [([], [U('assoc_rq')]), ([ac], [U('pdata', 2)]), ([echo], [U('release_rq')]), ([relp], [])])
    C['rq-rj'] = ('rq', [([], [U('assoc_rq')]), ([e2.std_rj(1, 2, 2)], [])])
    C['rq-ac-abort'] = ('rq', [([], [U('assoc_rq')]), ([ac, ab], [])])
    C['rq-find-burst'] = ('rq', [([], [U('assoc_rq')]), ([ac], [U('pdata', 1)]), (_find_rsps(), [U('release_rq')]), ([relp], [])])
    C['rq-release-collision'] = ('rq', [([], [U('assoc_rq')]), ([ac], [U('release_rq')]), ([rel], [U('release_rp')]), ([relp], [])])
    C['rq-ac-close'] = ('rq', [([], [U('assoc_rq')]), ([ac, echo, 'CLOSE'], [])])
    # the peer sends its last PDUs and closes at once (the usual way an abort or a reject ends)
    C['ac-abort-close'] = ('ac', [([rq], [U('accept')]), ([ab, 'CLOSE'], [])])
    C['ac-two-echo-close'] = ('ac', [([rq], [U('accept')]), ([echo, echo, 'CLOSE'], [])])
    C['ac-store-close'] = ('ac', [([rq], [U('accept')]), (_store_frags() + ['CLOSE'], [])])
    C['ac-release-close'] = ('ac', [([rq], [U('accept')]), ([echo, rel, 'CLOSE'], [])])
    C['rq-rj-close'] = ('rq', [([], [U('assoc_rq')]), ([e2.std_rj(2, 3, 1), 'CLOSE'], [])])
    # endings started by the local user
    C['ac-local-abort'] = ('ac', [([rq], [U('accept')]), ([echo], [U('abort', 0, 2)]), (['CLOSE'], [])])
    C['rq-local-abort'] = ('rq', [([], [U('assoc_rq')]), ([ac], [U('abort', 0, 0)]), (['CLOSE'], [])])
    return C


_CONV = None


def conv():
    global _CONV
    if _CONV is None:
        _CONV = conversations()
    return _CONV


def build_history(name, burst_idx=None, cuts=(), dribble=False, close_with_last=False):
    """-> (history, round index of every history position).  Burst `burst_idx` is delivered in the segments
    defined by `cuts` (offsets into the concatenated burst); all other bursts one PDU per segment."""
    role, rounds = conv()[name]
    hist, owner = [], []
    for ri, (burst, reactions) in enumerate(rounds):
        pdus = [p for p in burst if p != 'CLOSE']
        closing = 'CLOSE' in burst
        if ri == burst_idx and pdus:
            data = b''.join(pdus)
            if dribble:
                segs = [data[i:i + 1] for i in range(len(data))]
            else:
                b = [0] + sorted(set(c for c in cuts if 0 < c < len(data))) + [len(data)]
                segs = [data[b[i]:b[i + 1]] for i in range(len(b) - 1)]
        else:
            segs = pdus
        glue = closing and close_with_last and ri == burst_idx and segs
        for k, sgm in enumerate(segs):
            hist.append(('bytes_close' if glue and k == len(segs) - 1 else 'bytes', sgm))
            owner.append(ri)
        if closing and not glue:
            hist.append(('close',))
            owner.append(ri)
        for r in reactions:
            hist.append(r)
            owner.append(ri)
    return role, hist, owner


def observe(role, hist, owner, nrounds, recv_limit=None, prequeue=0, deviations=None, mpl=16384):
    # a deviation may only bring forward the next segment of the same burst (never a local reaction or another round)
    guard = lambda pos: pos > 0 and hist[pos][0] in ('bytes', 'bytes_close') and hist[pos - 1][0] == 'bytes' and owner[pos] == owner[pos - 1]
    env = e2.Env(role, hist, recv_limit=recv_limit, prequeue=prequeue, deviations=deviations, budget=3000, dev_guard=guard, max_pdu_length=mpl).run()
    per = [{'inds': [], 'wire': [], 'close': 0} for _ in range(nrounds)]
    # steps[0] is start-up; step i (1-based) belongs to history position i-1, except pre-queued positions
    consumed_pre = env.steps[0].get('pre', 0) if env.steps else 0
    hpos = consumed_pre
    for si, st in enumerate(env.steps):
        if si == 0:
            r = owner[0] if owner else 0
            hpos += len(st.get('dev', []))
        elif st['ev'][0] in ('idle', 'end'):
            r = nrounds - 1
        else:
            r = owner[min(hpos, len(owner) - 1)]
            hpos += 1 + len(st.get('dev', []))
        per[r]['inds'] += st['inds']
        per[r]['wire'] += e2.summarize_wire(st['wire'])
        per[r]['close'] += st['log'].count('close')
    fin = env.final
    return {'rounds': per, 'final': (fin['status'], fin['exc'], fin['state'], fin['sock'], fin['timer'], len(fin['raw_pdu']))}


RULE = ('23 conversations (acceptor- and requestor-side: echo, 3-fragment store, two requests in one burst, RQ+A-ABORT, RQ+close, '
        'P-DATA x2 + A-ABORT, release by peer, release collision, reject, unknown PDU, RJ, AC+A-ABORT, multi-PDU response burst) x every '
        'burst x {every single cut offset, every pair of cut offsets (quick: on a stride), all k=3 cut sets on PDU-header boundaries '
        '+-1, one-byte dribble, everything-at-once, peer close already visible with the last segment} x recv() size limit {none, 1, 6, 7} x first segment already waiting at start-up '
        '{no, yes} x a previous association of the same process having died mid-PDU x <=1 deviation (next segment delivered at a non-quiescent loop head); the per-round observation log (indications '
        'with contents, PDUs sent, close calls, final state, leftover buffer) must equal that of the canonical delivery (one PDU per '
        'segment). distinct/non-trivial = distinct (conversation, burst, cut set, recv limit, pre-queue, deviation)')


def cases(tier, seed):
    thorough = tier == 'thorough'
    # a previous association of the same process died in the middle of a PDU: the next one must be unaffected
    for name in conv():
        for k in ((1, 5, 6, 7, 30) if not thorough else range(1, 60)):
            yield {'conv': name, 'burst': 0, 'cuts': [], 'recv': None, 'pre': 0, 'after_dead': k}
    for name in conv():
        role, rounds = conv()[name]
        for bi, (burst, _) in enumerate(rounds):
            pdus = [p for p in burst if p != 'CLOSE']
            if not pdus:
                continue
            L = sum(len(p) for p in pdus)
            bounds = list(itertools.accumulate(len(p) for p in pdus))[:-1]
            pres = (0, 1) if (role == 'ac' and bi == 0) else (0,)
            for pre in pres:
                for rl in (None, 1, 6, 7):
                    yield {'conv': name, 'burst': bi, 'cuts': [], 'recv': rl, 'pre': pre}          # everything at once
                    yield {'conv': name, 'burst': bi, 'cuts': 'dribble', 'recv': rl, 'pre': pre}
                    for c in range(1, L):
                        if rl is None or c % 3 == 0 or c < 12 or thorough:
                            yield {'conv': name, 'burst': bi, 'cuts': [c], 'recv': rl, 'pre': pre}
                if 'CLOSE' in burst:
                    # the close is already visible when the last segment is read
                    for rl in (None, 1, 7):
                        yield {'conv': name, 'burst': bi, 'cuts': [], 'recv': rl, 'pre': pre, 'glue': True}
                        for c in range(1, L, 1 if thorough else 5):
                            yield {'conv': name, 'burst': bi, 'cuts': [c], 'recv': rl, 'pre': pre, 'glue': True}
                    for c in bounds:
                        for d in (-1, 0, 1):
                            if 0 < c + d < L:
                                yield {'conv': name, 'burst': bi, 'cuts': [c + d], 'recv': None, 'pre': pre, 'glue': True}
                # the provider's own maximum PDU length (also its read size): unlimited (0), and smaller than the PDUs it receives
                for mpl in (0, 10, 64):
                    for glue in ((False, True) if 'CLOSE' in burst else (False,)):
                        extra = {'glue': True} if glue else {}
                        yield dict({'conv': name, 'burst': bi, 'cuts': [], 'recv': None, 'pre': pre, 'mpl': mpl}, **extra)
                        yield dict({'conv': name, 'burst': bi, 'cuts': 'dribble', 'recv': None, 'pre': pre, 'mpl': mpl}, **extra)
                        for c in (range(1, L) if thorough else sorted(set([1, 5, 6, 7, L // 2, L - 1] + bounds + [b + 3 for b in bounds]))):
                            if 0 < c < L:
                                yield dict({'conv': name, 'burst': bi, 'cuts': [c], 'recv': None, 'pre': pre, 'mpl': mpl}, **extra)
                # pairs
                stride = 1 if thorough else max(1, L // 28)
                pts = sorted(set(list(range(1, L, stride)) + [b + d for b in [0] + bounds for d in (-1, 1, 5, 6, 7) if 0 < b + d < L]))
                for a, b in itertools.combinations(pts, 2):
                    yield {'conv': name, 'burst': bi, 'cuts': [a, b], 'recv': None, 'pre': pre}
                # k = 3 on header boundaries +-1
                hb = sorted(set(b + d for b in [0] + bounds for d in (-1, 0, 1, 5, 6, 7) if 0 < b + d < L))
                for trip in itertools.combinations(hb, 3):
                    yield {'conv': name, 'burst': bi, 'cuts': list(trip), 'recv': None if sum(trip) % 2 else 7, 'pre': pre}
                # deviations: the second segment arrives while the first is still being processed
                for c in (sorted(set(bounds + [6, 7, L // 2])) if not thorough else range(1, L)):
                    if 0 < c < L:
                        for d in (1, 2, 3):
                            yield {'conv': name, 'burst': bi, 'cuts': [c], 'recv': None, 'pre': pre, 'dev': [d]}


def domain(tier):
    return {'conversations': sorted(conv()), 'recv_limits': [None, 1, 6, 7]}


_CANON = {}


def canonical(name):
    if name not in _CANON:
        role, hist, owner = build_history(name)
        _CANON[name] = observe(role, hist, owner, len(conv()[name][1]))
    return _CANON[name]


def run_case(case):
    common.import_repo()
    name = case['conv']
    nr = len(conv()[name][1])
    ref = canonical(name)
    if ref['final'][0] != 'quiescent-end':
        return {'viol': [('c03:canonical-run-fails:%s' % name, 'canonical delivery of %s ends with %r' % (name, ref['final']))],
                'case': case, 'key': (name, 'canonical-run-fails')}
    dribble = case['cuts'] == 'dribble'
    if case.get('after_dead'):
        drole = conv()[name][0]
        k = case['after_dead']
        if drole == 'ac':
            dead = [('bytes', small_rq()[:k]), ('close',)]
        else:
            dead = [('user', ('assoc_rq',)), ('bytes', small_ac()[:k]), ('close',)]
        e2.Env(drole, dead, budget=3000).run()
    role, hist, owner = build_history(name, case['burst'], () if dribble else case['cuts'], dribble, case.get('glue', False))
    dev = {d: True for d in case.get('dev', [])} or None
    got = observe(role, hist, owner, nr, case['recv'], case['pre'], dev, case.get('mpl', 16384))
    viol = []
    if got != ref:
        # first difference
        diff = None
        for ri in range(nr):
            for k in ('inds', 'wire', 'close'):
                if got['rounds'][ri][k] != ref['rounds'][ri][k]:
                    diff = 'round %d %s: %r versus canonical %r' % (ri, k, got['rounds'][ri][k], ref['rounds'][ri][k])
                    break
            if diff:
                break
        if not diff:
            diff = 'final %r versus canonical %r' % (got['final'], ref['final'])
        kind = 'after-dead-association' if case.get('after_dead') else 'pre' if case['pre'] else ('dev' if dev else ('close-with-data' if case.get('glue') else ('recv' if case['recv'] else 'cut')))
        viol.append(('c03:%s:%s' % (name, kind), 'delivery %s differs from one-PDU-per-segment delivery: %s' % (
            {k: case[k] for k in ('burst', 'cuts', 'recv', 'pre', 'dev', 'mpl', 'glue') if k in case}, diff)))
    key = (name, case['burst'], tuple(case['cuts']) if not dribble else 'dribble', case['recv'], case['pre'], tuple(case.get('dev', [])), case.get('glue', False), case.get('after_dead'), case.get('mpl'))
    return {'viol': viol, 'case': case if viol else None, 'key': key,
            'sample': case if case['cuts'] == [6, 7] else None}


def finalize(rep, tier, seed):
    rep.coverage['states'] = len(rep.nontrivial)
    rep.coverage['transitions'] = rep.evaluations
    rep.coverage['traces_validated_against_impl'] = rep.evaluations
    rep.coverage['explanation'] = ('states = distinct delivery schedules explored, transitions = executions of the real provider loop; '
                                   'every execution is compared with the canonical execution of the same conversation (differential oracle); '
                                   'the canonical executions themselves are validated against the TLA+ model by C05')
    rep.assumptions = ['segment boundaries are varied inside one burst only (a burst = bytes the peer may send without waiting for us), '
                       'so that causality with local reactions is preserved',
                       'segments are delivered at quiescent points except in the deviation runs']
