"""C20 - concurrent associations on one application entity are isolated (E3, differential)."""
import itertools

from .. import common, e3, assoc, dsgen

ID = 'C20'
LEVEL = 'model_checking'

CT = '1.2.840.10008.5.1.4.1.1.2'
MR = '1.2.840.10008.5.1.4.1.1.4'
VERIF = '1.2.840.10008.1.1'
FIND = '1.2.840.10008.5.1.4.1.2.1.1'
IMPL, EXPL, BIG = '1.2.840.10008.1.2', '1.2.840.10008.1.2.1', '1.2.840.10008.1.2.2'

CLIENTS = {
    # title: (max pdu, transfer syntaxes, storage classes, instance uids with data-set padding, first message id)
    'SCU1': dict(maxlen=128, ts=[IMPL], classes=[CT, MR], insts=[('1.2.1.1', CT, 150), ('1.2.1.2', MR, 10)], msg0=10),
    'SCU2': dict(maxlen=1024, ts=[EXPL], classes=[CT], insts=[('1.2.2.1', CT, 700)], msg0=500),
    'SCU3': dict(maxlen=16384, ts=[BIG, IMPL], classes=[MR], insts=[('1.2.3.1', MR, 40)], msg0=9000),
}

SCENARIOS = {
    'two-stores': dict(clients=['SCU1', 'SCU2'], fail=None),
    'store-and-find': dict(clients=['SCU1', 'SCU2'], fail=None, find='SCU2'),
    'one-aborts': dict(clients=['SCU1', 'SCU2'], fail=('SCU2', 'abort')),
    'one-disconnects-mid-pdu': dict(clients=['SCU1', 'SCU2'], fail=('SCU2', 'disconnect')),
    'shared-client-ae': dict(clients=['SCU1', 'SCU1b'], fail=None, shared=True),
    'shared-ae-two-servers': dict(clients=['SCU1'], fail=None, shared=True, two_servers=True),
    'two-echoes': dict(clients=['SCU1', 'SCU2'], fail=None, echo=True),
    'one-rejected': dict(clients=['SCU1', 'SCU2'], fail=None, reject='SCU2'),
    'rejected-then-next': dict(clients=['SCU2', 'SCU1'], fail=None, reject='SCU2'),
    'three-clients': dict(clients=['SCU1', 'SCU2', 'SCU3'], fail=None),
}


def make(scn_name, only=None):
    """Scenario with the clients of SCENARIOS[scn_name] running concurrently (or only client `only`, alone)."""
    import pynetdicom2
    from pynetdicom2 import applicationentity, sopclass, exceptions, statuses, dimsemessages
    spec = SCENARIOS[scn_name]

    def scenario(sched, net, results):
        server_log = []
        results['server'] = server_log

        def mem_store_scp(asce, ctx, msg):
            server_log.append(('store', str(asce.remote_ae), ctx.id, str(ctx.supported_ts), str(msg.affected_sop_instance_uid),
                               len(msg.data_set or b''), msg.message_id, asce.max_pdu_length, tuple(sorted(asce.accepted_contexts))))
            rsp = dimsemessages.CStoreRSPMessage()
            rsp.message_id_being_responded_to = msg.message_id
            rsp.affected_sop_instance_uid = msg.affected_sop_instance_uid
            rsp.sop_class_uid = msg.sop_class_uid
            rsp.status = 0
            asce.send(rsp, ctx.id)
        mem_store_scp.sop_classes = [CT, MR]

        class Srv(applicationentity.AE):
            def on_association_request(self, asce, rq):
                if spec.get('reject') and str(rq.calling_ae_title) == spec['reject']:
                    raise exceptions.AssociationRejectedError(1, 1, 3)

            def on_receive_echo(self, context):
                # application code of realistic length: other handler threads may run in the middle of it
                e3.cur().point('handler.echo')
                server_log.append(('echo',))
                e3.cur().point('handler.echo2')
                return statuses.SUCCESS

            def on_receive_find(self, context, ds):
                server_log.append(('find', str(ds.PatientName)))
                return iter([(dsgen.make('a', i), statuses.C_FIND_PENDING) for i in range(2)])
        ae = assoc.make_ae('SCP', [IMPL, EXPL, BIG], 16384, [mem_store_scp, sopclass.verification_scp, sopclass.qr_find_scp], cls=Srv)
        net.listen(('srv', 104), e3.serve_ae(ae))
        if spec.get('two_servers'):
            # a second entity that serves only CT: it refuses the MR context the shared client proposes
            def ct_only_scp(asce, ctx, msg):
                return mem_store_scp(asce, ctx, msg)
            ct_only_scp.sop_classes = [CT]
            ae_small = assoc.make_ae('SMALL', [IMPL, EXPL, BIG], 16384, [ct_only_scp])
            net.listen(('small', 104), e3.serve_ae(ae_small))
        shared_ae = None
        if spec.get('shared'):
            c = CLIENTS['SCU1']
            shared_ae = applicationentity.ClientAE('SCU1', c['ts'], c['maxlen']).add_scu(sopclass.storage_scu, c['classes'])

        def client(title):
            base = 'SCU1' if title == 'SCU1b' else title
            c = CLIENTS[base]
            out = {}
            results[title] = out

            def run():
                if shared_ae is not None:
                    cae = shared_ae
                else:
                    cae = applicationentity.ClientAE(title, c['ts'], c['maxlen']).add_scu(sopclass.storage_scu, c['classes']) \
                        .add_scu(sopclass.verification_scu).add_scu(sopclass.qr_find_scu)
                import contextvars
                ids = [pynetdicom2._new_msg_id() for _ in range(2)]
                ids += [contextvars.copy_context().run(pynetdicom2._new_msg_id) for _ in range(2)]
                try:
                    if spec.get('two_servers'):
                        # first an association with the small entity (kept open), then one with the full entity
                        with cae.request_association({'aet': 'SMALL', 'address': 'small', 'port': 104}) as first:
                            out['first'] = sorted(str(v.sop_class) for v in first.accepted_contexts.values())
                            with cae.request_association({'aet': 'SCP', 'address': 'srv', 'port': 104}) as second:
                                out['second'] = sorted(str(v.sop_class) for v in second.accepted_contexts.values())
                                ds = dsgen.make(('pad', 10), 0, sop_class=MR, inst='1.2.1.2')
                                out['status'] = [('1.2.1.2', int(second.get_scu(MR)(ds, 33)))]
                        out['ended'] = 'released'
                        out['msg_ids'] = ids
                        return
                    with cae.request_association({'aet': 'SCP', 'address': 'srv', 'port': 104}) as asce:
                        out['negotiated'] = (asce.max_pdu_length, tuple(sorted((k, str(v.sop_class), str(v.supported_ts))
                                                                          for k, v in asce.accepted_contexts.items())))
                        ids.append(pynetdicom2._new_msg_id())
                        stat = []
                        out['status'] = stat
                        if spec.get('echo'):
                            out['echo'] = [int(asce.get_scu(VERIF)(c['msg0'] + 90 + j)) for j in range(2)]
                        for k, (inst, sop, pad) in enumerate(c['insts'] if not spec.get('echo') else []):
                            if title == 'SCU1b':
                                inst = inst + '.9'
                            ds = dsgen.make(('pad', pad), k, sop_class=sop, inst=inst)
                            stat.append((inst, int(asce.get_scu(sop)(ds, c['msg0'] + k))))
                            ids.append(pynetdicom2._new_msg_id())
                            if spec['fail'] and spec['fail'][0] == title and k == 0:
                                if spec['fail'][1] == 'abort':
                                    asce.abort(1)
                                    out['ended'] = 'aborted'
                                    return
                                asce.dul.dul_socket.inq  # noqa (touch: the transport is alive)
                                raise KeyboardInterrupt()
                        if spec.get('find') == title:
                            q = dsgen.make('query')
                            q.PatientName = 'FROM-' + title
                            out['find'] = [(None if d is None else str(d.PatientID), int(s)) for d, s in asce.get_scu(FIND)(q, c['msg0'] + 50)]
                    out['ended'] = 'released'
                except exceptions.AssociationRejectedError as exc:
                    out['ended'] = ('rejected', exc.result, exc.source, exc.diagnostic)
                except exceptions.NetDICOMError as exc:
                    out['ended'] = type(exc).__name__
                except KeyboardInterrupt:
                    out['ended'] = 'killed'
                out['msg_ids'] = ids
            return run

        def disconnecting_peer(title):
            """A raw peer that associates, sends half a P-DATA-TF and drops the connection."""
            from .. import e2, ref_pdu, pdugen
            out = {}
            results[title] = out

            def run():
                end = net.socket()
                end.name = 'peer'
                end.connect(('srv', 104))
                end.sendall(ref_pdu.build(pdugen.assoc(1, [pdugen.app(), pdugen.pcrq(1, CT, (EXPL,)),
                                                           pdugen.ui([{'t': 0x51, 'res': 0, 'max': 1024}])], called='SCP', calling=title)))
                buf = b''
                while len(buf) < 6 or len(buf) < 6 + int.from_bytes(buf[2:6], 'big'):
                    d = end.recv(4096)
                    if not d:
                        break
                    buf += d
                end.sendall(e2.pdata(1, 3, e2.store_cmd())[:25])
                end.close()
                out['ended'] = 'disconnected'
            return run
        for title in spec['clients']:
            if only is not None and title != only:
                continue
            if spec['fail'] and spec['fail'] == (title, 'disconnect'):
                sched.spawn(disconnecting_peer(title), 'peer-' + title)
            else:
                sched.spawn(client(title), 'client-' + title)
    return scenario


def view(out, title):
    """What client `title` and the server (about `title`) observed."""
    r = out.results
    mine = dict(r.get(title, {}))
    ids = mine.pop('msg_ids', [])
    base = 'SCU1' if title == 'SCU1b' else title
    srv = [x for x in r.get('server', []) if (x[0] == 'store' and x[1] == base and (title != 'SCU1b') == (not x[4].endswith('.9'))) or
           (x[0] == 'find' and x[1] == 'FROM-' + title)]
    return mine, srv, ids


_SOLO = {}


def _solo_job(k):
    common.import_repo()
    scn, title = k
    out = e3.execute(make(scn, only=title), [])
    if out.deadlock or out.overrun or out.crashed:
        # on the unchanged tree every conversation works alone; if it does not, that is what has to be reported
        return k, ('FAILED', 'deadlock=%r overrun=%r crashed=%r' % (out.deadlock, out.overrun, [(c[0], c[1]) for c in out.crashed]))
    return k, view(out, title)[:2]


def solo(scn, title):
    k = (scn, title)
    if k not in _SOLO:
        out = e3.execute(make(scn, only=title), [])
        if out.deadlock or out.overrun or out.crashed:
            _SOLO[k] = ('FAILED', 'deadlock=%r overrun=%r crashed=%r' % (out.deadlock, out.overrun, [(c[0], c[1]) for c in out.crashed]))
        else:
            _SOLO[k] = view(out, title)[:2]
    return _SOLO[k]


def judge(scn, out):
    spec = SCENARIOS[scn]
    viol = []
    sig = 'c20:%s' % scn
    sched = ''.join(map(str, [c for c in out.choices if c])) or 'default'
    if out.deadlock or out.overrun:
        return [(sig + (':deadlock' if out.deadlock else ':unbounded-wait'), '%r (schedule %s)' % (out.deadlock or out.overrun, sched))]
    if out.crashed:
        viol.append((sig + ':thread-crash:%s' % out.crashed[0][1].split('(')[0], 'thread %s died: %s (schedule %s)' % (out.crashed[0][0], out.crashed[0][1], sched)))
    if spec.get('two_servers'):
        mine = out.results.get('SCU1', {})
        if mine.get('second') != sorted([CT, MR]) or mine.get('status') != [('1.2.1.2', 0)] or mine.get('ended') != 'released':
            viol.append((sig + ':later-association-affected', 'after an association in which the peer refused the MR context, the next association of the '
                         'same entity with a peer serving MR gave %r (schedule %s)' % ({k: v for k, v in mine.items() if k != 'msg_ids'}, sched)))
        return viol
    for title in spec['clients']:
        failing = spec['fail'] and spec['fail'][0] == title
        if failing and spec['fail'][1] == 'disconnect':
            continue
        mine, srv, ids = view(out, title)
        ref = solo(scn, title)
        if ref[0] == 'FAILED':
            viol.append((sig + ':conversation-fails-alone:%s' % title, 'the conversation of client %s does not even work alone: %s' % (title, ref[1])))
            continue
        smine, ssrv = ref
        if mine != smine:
            viol.append((sig + ':client-outcome:%s' % title, 'client %s observed %r, alone it observes %r (schedule %s)' % (title, mine, smine, sched)))
        if srv != ssrv:
            viol.append((sig + ':server-view:%s' % title, 'about client %s the server observed %r, alone %r (schedule %s)' % (title, srv, ssrv, sched)))
        if len(set(ids)) != len(ids):
            viol.append((sig + ':msg-id-reused', 'message ids obtained in one thread repeat: %r (schedule %s)' % (ids, sched)))
    # the server saw exactly the (client, instance) pairs sent
    seen = sorted((x[1], x[4]) for x in out.results.get('server', []) if x[0] == 'store')
    want = []
    for title in spec['clients']:
        base = 'SCU1' if title == 'SCU1b' else title
        if spec['fail'] and spec['fail'] == (title, 'disconnect'):
            continue
        if spec.get('reject') == title or spec.get('echo'):
            continue
        insts = CLIENTS[base]['insts'][:1] if (spec['fail'] and spec['fail'][0] == title) else CLIENTS[base]['insts']
        want += [(base, i + ('.9' if title == 'SCU1b' else '')) for i, _, _ in insts]
    if seen != sorted(want):
        viol.append((sig + ':server-pairs', 'server handled (client, instance) pairs %r, sent were %r (schedule %s)' % (seen, sorted(want), sched)))
    # on every association, each response answers a request made on that same association
    from .. import ref_pdu, ref_cmd
    per = {}
    for name, data in out.wire:
        per.setdefault(name, bytearray()).extend(data)
    for name in [n for n in per if n.startswith('c')]:
        peer = 's' + name[1:]

        def cmds(raw):
            res = []
            buf = b''
            pdus, _ = ref_pdu.split_stream(bytes(raw))
            for p in pdus:
                try:
                    t = ref_pdu.parse(p)
                except ref_pdu.RefError:
                    continue
                if t['pdu'] != 4:
                    continue
                for pdv in t['pdvs']:
                    if pdv['data'] and pdv['data'][0] in (1, 3):
                        buf += pdv['data'][1:]
                        if pdv['data'][0] == 3:
                            try:
                                res.append(ref_cmd.read(buf))
                            except ref_cmd.CmdError:
                                pass
                            buf = b''
            return res
        asked = set(ref_cmd.value(e, 0x0110) for e in cmds(per[name]) if ref_cmd.value(e, 0x0110) is not None)
        for e in cmds(per.get(peer, b'')):
            rid = ref_cmd.value(e, 0x0120)
            if rid is not None and rid not in asked:
                viol.append((sig + ':foreign-message-id', 'a response on connection %s answers message id %r, but only %r were requested there (schedule %s)' % (
                    peer, rid, sorted(asked), sched)))
    if [e for e in out.open_ends if e != 'peer']:
        viol.append((sig + ':transport-left-open', 'endpoints left open %r (schedule %s)' % (out.open_ends, sched)))
    return viol


def work(args):
    """Worker: explore the sub-tree under one root of one scenario."""
    scn, root, bound = args
    common.import_repo()
    viol = []
    first = [None]
    sigs = set()

    def on(out):
        v = judge(scn, out)
        sigs.add(common.short(sorted((k, str(v2)) for k, v2 in out.results.items() if k != 'server'), 2000))
        if v and first[0] is None:
            first[0] = list(out.choices)
        viol.extend(v)
    try:
        if root is None:
            out = e3.execute(make(scn), [])
            on(out)
            stats = {'executions': 1, 'decisions': len(out.points), 'capped': False}
        else:
            stats = e3.explore(make(scn), bound, on, max_exec=4000, root=(root[0], root[1]), count_all=True)
    except common.HarnessError as exc:
        if 'schedule prefix diverged' not in str(exc):
            raise
        # The scheduler, transport and clock are deterministic, so the same choice prefix must reproduce the same execution.
        # If it does not, the behaviour of this execution depends on state that earlier associations of the same process
        # left behind in the library - which is what this property forbids.
        viol.append(('c20:%s:history-dependent-execution' % scn,
                     'replaying schedule prefix %r did not reproduce the execution it was taken from (%s): the library keeps state '
                     'across associations of one process' % (root[0] if root else [], exc)))
        first[0] = list(root[0]) if root else []
        stats = {'executions': 1, 'decisions': 0, 'capped': False}
    dedup = {}
    for s, m in viol:
        dedup.setdefault(s, m)
    return scn, list(dedup.items()), first[0], stats['executions'], stats['decisions'], stats['capped'], len(sigs)


def run_case(case):
    import multiprocessing
    common.import_repo()
    if 'stack' in case:
        from .. import svc_stack
        return svc_stack.run_case(case, 'c20:')
    if not _SOLO:
        ctx = multiprocessing.get_context('fork')
        sp = SCENARIOS[case['scenario']]
        keys = [(case['scenario'], t) for t in sp['clients'] if not (sp['fail'] and sp['fail'] == (t, 'disconnect'))]
        with ctx.Pool(len(keys), maxtasksperchild=1) as pool:
            for k, v in pool.imap(_solo_job, keys, chunksize=1):
                _SOLO[k] = v
    out = e3.execute(make(case['scenario']), case.get('schedule') or [])
    return {'viol': judge(case['scenario'], out), 'case': case}


def main(tier, seed):
    import multiprocessing
    common.import_repo()
    rep = common.Report(ID, tier, seed, LEVEL)
    bound = 2 if tier == 'thorough' else 1
    jobs = []
    info = {}
    # reference (solo) observations: each computed in a fresh process that has executed nothing else, so that state a
    # defect keeps at class or module level cannot leak into the reference
    ctx = multiprocessing.get_context('fork')
    keys = [(scn, t) for scn, sp in SCENARIOS.items() for t in sp['clients'] if not (sp['fail'] and sp['fail'] == (t, 'disconnect')) and not sp.get('two_servers')]
    with ctx.Pool(min(common.NPROC, len(keys)), maxtasksperchild=1) as pool:
        for k, v in pool.imap(_solo_job, keys, chunksize=1):
            _SOLO[k] = v
    for scn in SCENARIOS:
        b = bound
        out, roots = e3.first_level(make(scn), b, count_all=True)
        info[scn] = {'points_default': len(out.points), 'roots': len(roots), 'threads': len(out.threads), 'bound': b}
        jobs.append((scn, None, b))
        jobs += [(scn, r, b) for r in roots]
    total = dec = 0
    capped = False
    outcomes = 0
    with ctx.Pool(common.NPROC) as pool:
        for scn, viol, first, n, d, cap, nsig in pool.imap_unordered(work, jobs, chunksize=2):
            total += n
            dec += d
            capped = capped or cap
            outcomes = max(outcomes, nsig)
            info[scn]['schedules'] = info[scn].get('schedules', 0) + n
            for s, m in viol:
                rep.add(common.Viol(s, m, {'scenario': scn, 'schedule': first}))
    # determinism of the harness: the default schedule twice
    a, b2 = e3.execute(make('two-stores'), []), e3.execute(make('two-stores'), [])
    if a.points != b2.points or view(a, 'SCU1') != view(b2, 'SCU1'):
        raise common.HarnessError('nondeterministic execution')
    rep.coverage.update({
        'states': dec, 'transitions': dec, 'traces_validated_against_impl': total, 'schedules': total,
        'evaluations': total, 'distinct_nontrivial': total, 'deviation_bound_completed': bound, 'scenarios': info,
        'distinct_outcomes': outcomes, 'exhaustive': not capped,
        'rule': 'one server AE (in-memory storage SCP for 2 classes, verification, C-FIND) and 2 (3) concurrent client conversations over '
                'separate pipes, each with its own AE title, data sets, sizes, maximum PDU length, transfer syntaxes, message ids; '
                'variants: one client aborts after its first store, one peer disconnects mid-PDU, two associations requested from one '
                'shared ClientAE, a C-FIND running next to a store; ALL schedules with <= bound deviations from the default schedule '
                '(a deviation = running any thread other than the first enabled one in canonical order, preempting or not). Differential oracle: what '
                'each client observes and what the server observes about it equal the same conversation run alone',
        'samples': [{'scenario': k, **v} for k, v in info.items()][:4],
    })
    from .. import svc_stack
    svc_stack.extend(rep, ID, tier, seed, 'vp.checks.c20')
    from .. import pairs
    pairs.extend(rep, ID, tier, seed)
    rep.coverage['part2_note'] = ('absolute-oracle scenarios (a differential oracle cannot see what every schedule shares): n clients storing one '
                                  'SOP instance UID into a directory-backed StorageAE at the same time, with scheduling points at the file-system '
                                  'look-up and create; repeated association requests from one configuration; entity re-purposed while a request is in flight')
    rep.assumptions = ['scheduling points at synchronisation operations; atomic segments in between (GIL granularity)',
                       'N <= 3 associations; the ThreadingTCPServer accept loop and kernel sockets are not executed']
    return rep
