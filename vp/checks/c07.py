"""C07 - DIMSE reassembly is exact under any PDV grouping; completion detected exactly (E1)."""
import itertools
import os
import shutil
import tempfile

from .. import common, msggen, ref_cmd

ID = 'C07'
LEVEL = 'exploration'
CHUNK = 4
RULE = ('for each (message class of all 23, data set absent / 1, F, F+1, 2F+1 bytes, maximum length) the real fragment list '
        '(n fragments) is regrouped into P-DATA-TF PDUs in EVERY composition (2^(n-1)) for n<=12, and for longer lists in '
        'every composition within 3 splits of all-in-one or 3 merges of one-per-PDU; each composition goes through '
        'PDataTfPDU.encode/decode and a fresh DIMSEDecoder, and additionally through StateMachine.dt_2 / ar_6 on a stub '
        'provider, also with the local release request (AR-1) falling between two PDUs of the message; file-backed reception (AEBase.get_file temp file and the directory-backed _get_storage_file) x 3 '
        'transfer syntaxes for C-STORE-RQ. distinct/non-trivial = distinct (class, n, composition, reception mode)')
ASSUMPTIONS = ['fragments of one message arrive in protocol order (ill-ordered PDV streams belong to C12)',
               'file-backed reception is exercised for C-STORE-RQ (the only request with a data set and Affected SOP UIDs)']

IMPLICIT = '1.2.840.10008.1.2'
EXPLICIT = '1.2.840.10008.1.2.1'
BIGEND = '1.2.840.10008.1.2.2'
CT = '1.2.840.10008.5.1.4.1.1.2'
FIND = '1.2.840.10008.5.1.4.1.2.1.1'
NAME_OF = {v: k for k, v in ref_cmd.COMMAND_FIELD.items()}


def compositions(n, full_limit=12, dev=3):  # noqa
    """All groupings of n items into contiguous runs, as tuples of cut positions (subsets of 1..n-1)."""
    pos = list(range(1, n))
    if n <= full_limit:
        for k in range(0, n):
            for cuts in itertools.combinations(pos, k):
                yield cuts
        return
    seen = set()
    for k in range(0, dev + 1):
        for cuts in itertools.combinations(pos, k):           # <= dev splits of all-in-one
            if cuts not in seen:
                seen.add(cuts)
                yield cuts
        for merged in itertools.combinations(pos, k):         # <= dev merges of one-per-PDU
            cuts = tuple(p for p in pos if p not in merged)
            if cuts not in seen:
                seen.add(cuts)
                yield cuts


def domain(tier):
    return {'classes': 23, 'maxlens': [40, 70, 16384] + ([13, 25] if tier == 'thorough' else []),
            'full_composition_limit': 12, 'deviation_bound_for_long_lists': 3}


def cases(tier, seed):
    thorough = tier == 'thorough'
    mls = [40, 70, 16384] + ([13, 19, 25, 31, 100] if thorough else [])
    for name in msggen.CLASS_NAMES:
        for ml in mls:
            F = ml - 6
            for n in ((0, 1, F, F + 1, 2 * F + 1) if not thorough else (0, 1, 2, F - 1, F, F + 1, 2 * F, 2 * F + 1, 3 * F + 2)):
                if n > 3000:
                    continue
                yield {'cls': name, 'maxlen': ml, 'dslen': n, 'mode': 'memory'}
    for mode in ('tempfile', 'directory'):
        for ts in (IMPLICIT, EXPLICIT, BIGEND):
            for ml in ((60, 100, 16384) if not thorough else (40, 60, 100, 250, 16384)):
                for pad in (0, 1, 37, 200):
                    yield {'cls': 'CStoreRQMessage', 'maxlen': ml, 'mode': mode, 'ts': ts, 'pad': pad}
    # command sets as other toolkits send them: optional elements absent altogether (not present-but-empty)
    for name in msggen.CLASS_NAMES:
        yield {'cls': name, 'maxlen': 70, 'dslen': 9, 'mode': 'memory', 'lean': True}
    # "data set present" as PS3.7 defines it: any Command Data Set Type other than 0101H (peers send 0000H, 0102H, ...)
    for name in msggen.CLASS_NAMES:
        for flag in (0x0000, 0x0102) + ((0xFFFF, 0x0100) if thorough else ()):
            yield {'cls': name, 'maxlen': 70, 'dslen': 9, 'mode': 'memory', 'flag': flag}
    for name, mode in (('CStoreRQMessage', 'memory'), ('CFindRSPMessage', 'memory'), ('CStoreRQMessage', 'tempfile'), ('CStoreRQMessage', 'directory')):
        for ml in (70, 16384):
            c = {'cls': name, 'maxlen': ml, 'mode': mode, 'empty_last': True}
            c.update({'dslen': 2 * (ml - 6)} if mode == 'memory' and ml < 100 else {'dslen': 9} if mode == 'memory' else {'ts': IMPLICIT, 'pad': 37})
            yield c
    # a long fragment list: deviation-bounded compositions
    yield {'cls': 'CStoreRQMessage', 'maxlen': 12, 'dslen': 40, 'mode': 'memory'}
    yield {'cls': 'CFindRSPMessage', 'maxlen': 14, 'dslen': 9, 'mode': 'memory'}
    if thorough:
        for name in ('CMoveRSPMessage', 'NEventReportRQMessage', 'CEchoRQMessage'):
            yield {'cls': name, 'maxlen': 11, 'dslen': 17, 'mode': 'memory', 'dev': 4}


def _dicom_bytes(ts, pad):
    """A real data set encoded with pydicom itself (not with the library under test)."""
    import pydicom
    from pydicom.filebase import DicomBytesIO
    from pydicom import filewriter, uid
    ds = pydicom.Dataset()
    ds.SOPClassUID = CT
    ds.SOPInstanceUID = '1.2.3.4.5.6.7'
    ds.PatientName = 'Verif^Case'
    ds.PatientID = 'ID%d' % pad
    ds.Rows = 3
    if pad:
        ds.add_new((0x0009, 0x0010), 'LO', 'VERIF')
        ds.add_new((0x0009, 0x1001), 'OB', bytes((i * 7 + 1) & 0xFF for i in range(pad + (pad % 2))))
    fp = DicomBytesIO()
    t = uid.UID(ts)
    fp.is_implicit_VR, fp.is_little_endian = t.is_implicit_VR, t.is_little_endian
    filewriter.write_dataset(fp, ds)
    return fp.parent.getvalue()


class _Q(object):
    def __init__(self):
        self.items = []
        self.complete_at_put = []

    def put(self, x):
        # the service thread may take the message the moment it is queued: it must be complete then
        self.complete_at_put.append(isinstance(x, tuple) and len(x) == 2 and getattr(x[0], 'data_set', None) is not None)
        self.items.append(x)


class _Sock(object):
    def sendall(self, data):
        pass

    def close(self):
        pass


class _Timer(object):
    def start(self):
        pass
    stop = restart = start


class _Prov(object):
    def __init__(self):
        self.primitive = None
        self.to_service_user = _Q()
        self.dul_socket = None


def _split_file(raw):
    """-> (meta elements dict tag->bytes, data set bytes) of a Part-10 file, parsed independently."""
    if raw[128:132] != b'DICM':
        raise ValueError('no DICM prefix')
    # (0002,0000) UL 4 explicit VR LE: tag(4) 'UL'(2) len(2) value(4)
    if raw[132:136] != b'\x02\x00\x00\x00' or raw[136:138] != b'UL':
        raise ValueError('file meta group length missing')
    glen = int.from_bytes(raw[140:144], 'little')
    meta = raw[144:144 + glen]
    out = {}
    i = 0
    while i < len(meta):
        tag = (int.from_bytes(meta[i:i + 2], 'little'), int.from_bytes(meta[i + 2:i + 4], 'little'))
        vr = meta[i + 4:i + 6]
        if vr in (b'OB', b'OW', b'SQ', b'UN', b'UT'):
            ln = int.from_bytes(meta[i + 8:i + 12], 'little')
            val = meta[i + 12:i + 12 + ln]
            i += 12 + ln
        else:
            ln = int.from_bytes(meta[i + 6:i + 8], 'little')
            val = meta[i + 8:i + 8 + ln]
            i += 8 + ln
        out[tag] = val
    return out, raw[144 + glen:]


def run_case(case):
    common.import_repo()
    import pydicom
    import pynetdicom2
    from pynetdicom2 import fsm, pdu as P, asceprovider, applicationentity, dsutils
    from pydicom import uid
    name, ml, mode = case['cls'], case['maxlen'], case['mode']
    viol = []
    sig = 'c07:%s:%s' % (name, mode)
    pc = 5
    ts = case.get('ts', IMPLICIT)
    if mode == 'memory':
        raw = bytes(((i * 29 + 3) & 0xFF) for i in range(case['dslen']))
        sop = '1.2.840.10008.1.1'
    else:
        raw = _dicom_bytes(ts, case['pad'])
        sop = CT
    msg = msggen.make(name, sop_class=sop, sop_inst='1.2.3.4.5.6.7', data_set=raw or None)
    if case.get('lean'):
        keep = {'CommandGroupLength', 'CommandField', 'CommandDataSetType', 'MessageID', 'MessageIDBeingRespondedTo', 'AffectedSOPClassUID',
                'RequestedSOPClassUID', 'Status'}
        for el in list(msg.command_set):
            if el.keyword not in keep:
                del msg.command_set[el.tag]
    if case.get('flag') is not None:
        msg.command_set.CommandDataSetType = case['flag']
    msg.set_length()
    frags = [p.data_value_items[0] for p in msg.encode(pc, ml)]
    if case.get('empty_last') and raw:
        # a sender that finds out that the data set has ended only after the last full fragment went out: the stream ends with a
        # fragment that carries the last-fragment flag and no data
        lastf = frags[-1]
        frags[-1:] = [P.PresentationDataValueItem(lastf.context_id, b'\x00' + lastf.data_value[1:]),
                      P.PresentationDataValueItem(lastf.context_id, b'\x02')]
    n = len(frags)
    sent_cmd = {int(e.tag): e.value for e in msg.command_set}
    tmpdir = None
    store_in_file = set()
    get_file = None
    if mode != 'memory':
        tmpdir = tempfile.mkdtemp(prefix='vp_c07_', dir=os.environ.get('VP_TMP') or None)
        if mode == 'tempfile':
            ae = applicationentity.ClientAE('VERIF')
        else:
            ae = pynetdicom2.ClientStorageAE(tmpdir, 'VERIF')
        # the set of file-backed SOP classes comes from a really configured entity: a plain service and a
        # store-in-file service for the same class, registered in either order
        from ..assoc import Recorder
        plain, filesvc = Recorder('plain', [CT]), Recorder('file', [CT], store_in_file=True)
        order = (plain, filesvc) if (case.get('pad', 0) + ml) % 2 else (filesvc, plain)
        for svc in order:
            ae.add_scu(svc)
        store_in_file = ae.store_in_file
        get_file = ae.get_file
    # (the same abstract syntax is also accepted on a later context with another transfer syntax, as peers that propose one
    # context per transfer syntax get it)
    other_ts = BIGEND if ts != BIGEND else IMPLICIT
    contexts = {pc: asceprovider.PContextDef(pc, uid.UID(sop), uid.UID(ts)), 7: asceprovider.PContextDef(7, uid.UID(FIND), uid.UID(IMPLICIT)),
                9: asceprovider.PContextDef(9, uid.UID(sop), uid.UID(other_ts))}
    ncomp = 0
    keys = 0
    try:
        for cuts in compositions(n, 13 if case.get('thorough') else 12, case.get('dev', 3)):
            ncomp += 1
            bounds = [0] + list(cuts) + [n]
            groups = [frags[bounds[i]:bounds[i + 1]] for i in range(len(bounds) - 1)]
            where = 'maxlen=%d n=%d cuts=%r dslen=%d' % (ml, n, cuts, len(raw))
            if tmpdir and mode == 'directory':
                for f in os.listdir(tmpdir):
                    os.unlink(os.path.join(tmpdir, f))
            for via in ('decoder', 'dt_2', 'ar_6', 'release-between') if (ncomp <= 64 or mode != 'memory') else ('decoder',):
                if via == 'release-between' and len(groups) < 2:
                    continue
                if via != 'decoder' and mode != 'memory' and ncomp > 8:
                    continue
                dec = None
                sm = None
                prov = None
                if via == 'decoder':
                    dec = fsm.DIMSEDecoder(contexts, store_in_file, get_file)
                else:
                    prov = _Prov()
                    sm = fsm.StateMachine(prov, _Timer(), store_in_file, get_file)
                    sm.accepted_contexts = contexts
                    sm.current_state = fsm.States.STA_7 if via == 'ar_6' else fsm.States.STA_6
                    prov.dul_socket = _Sock()
                done_at = None
                result = None
                try:
                    rounds = [(gi, grp) for gi, grp in enumerate(groups)]
                    if via != 'decoder' and mode == 'memory':
                        # a second message through the same state machine (reassembly state must be reset)
                        rounds = rounds + [(gi + len(groups), grp) for gi, grp in enumerate(groups)]
                    for gi, grp in rounds:
                        second = gi >= len(groups)
                        gi = gi % len(groups)
                        wire = P.PDataTfPDU(list(grp)).encode()
                        pdu_in = P.PDataTfPDU.decode(wire)
                        last_idx = bounds[gi + 1] - 1
                        expect_receiving = last_idx < n - 1
                        if via == 'decoder':
                            dec.process(pdu_in)
                            if dec.receiving != expect_receiving:
                                viol.append((sig + ':completion:' + ('early' if not dec.receiving else 'late'),
                                             'after PDU %d/%d (fragments ..%d of %d) receiving=%r, expected %r (%s)'
                                             % (gi + 1, len(groups), last_idx, n - 1, dec.receiving, expect_receiving, where)))
                                break
                            if not dec.receiving:
                                result = (dec.msg, dec.pc_id)
                        else:
                            meth = via
                            if via == 'release-between':
                                # the local user requests release after PDU (ncomp mod groups) of the first message: AR-1, then
                                # the rest of the message (and the second message) arrives in Sta7
                                # (through the state machine's entry point, as the provider loop does it)
                                if not second and gi == 1 + (ncomp % (len(groups) - 1)):
                                    prov.primitive = None
                                    sm.action(fsm.Events.EVT_11)
                                    if sm.current_state != fsm.States.STA_7:
                                        viol.append((sig + ':state', 'release request in Sta6 led to state %r (%s)' % (sm.current_state, where)))
                                        break
                                meth = 'dt_2' if sm.current_state == fsm.States.STA_6 else 'ar_6'
                            prov.primitive = pdu_in
                            if via == 'release-between':
                                state_before = sm.current_state
                                sm.action(fsm.Events.EVT_10)
                                nxt, sm.current_state = sm.current_state, state_before
                            else:
                                nxt = getattr(sm, meth)()
                            if nxt != sm.current_state:
                                viol.append((sig + ':state', '%s returned state %r (%s)' % (via, nxt, where)))
                            got = len(prov.to_service_user.items)
                            want = (0 if expect_receiving else 1) + (1 if second else 0)
                            if got != want:
                                viol.append((sig + ':delivery:' + via + (':second-message' if second else ''),
                                             '%s delivered %d items to the user after PDU %d/%d of message %d, expected %d (%s)'
                                             % (via, got, gi + 1, len(groups), 2 if second else 1, want, where)))
                                break
                            if got:
                                if (raw or mode != 'memory') and not prov.to_service_user.complete_at_put[-1]:
                                    viol.append((sig + ':queued-before-complete:' + via, '%s queued the message for the service user before its data set was '
                                                 'attached (%s)' % (via, where)))
                                    break
                                item = prov.to_service_user.items[-1]
                                if not (isinstance(item, tuple) and len(item) == 2):
                                    viol.append((sig + ':delivery-shape', '%s delivered %r' % (via, item)))
                                    break
                                result = item
                except Exception as exc:
                    viol.append((sig + ':raises:' + via, '%s raised %r (%s)' % (via, exc, where)))
                    continue
                if result is not None and via != 'decoder' and mode != 'memory' and ncomp <= 4:
                    # after the file-backed message, a message of a class that is kept in memory arrives on the same association
                    # (through the same state machine): nothing of the first reception may stick to it
                    raw2 = b'Q' * 33
                    m2 = msggen.make('CFindRQMessage', sop_class=FIND, msg_id=77, data_set=raw2)
                    m2.set_length()
                    before = len(prov.to_service_user.items)
                    try:
                        for p2 in m2.encode(7, 40):
                            prov.primitive = P.PDataTfPDU.decode(p2.encode())
                            getattr(sm, 'dt_2' if sm.current_state == fsm.States.STA_6 else 'ar_6')()
                        new = prov.to_service_user.items[before:]
                        ok2 = (len(new) == 1 and isinstance(new[0], tuple) and type(new[0][0]).__name__ == 'CFindRQMessage' and new[0][1] == 7 and
                               new[0][0].data_set == raw2)
                        if not ok2:
                            viol.append((sig + ':next-message:' + via, 'a C-FIND-RQ (33 data bytes, kept in memory) following the file-backed message on the same '
                                         'association was delivered as %r (%s)' % ([(type(i[0]).__name__, i[1], type(i[0].data_set).__name__) if isinstance(i, tuple) else i
                                                                                    for i in new], where)))
                    except Exception as exc:
                        viol.append((sig + ':next-message:raises:' + via, 'a C-FIND-RQ following the file-backed message raised %r (%s)' % (exc, where)))
                if result is None:
                    if not viol:
                        viol.append((sig + ':no-result', 'no message after all fragments (%s)' % where))
                    continue
                rmsg, rpc = result
                if type(rmsg).__name__ != name or NAME_OF.get(ref_cmd.COMMAND_FIELD[name]) != name:
                    viol.append((sig + ':class', 'reassembled as %s (%s)' % (type(rmsg).__name__, where)))
                if rpc != pc:
                    viol.append((sig + ':pc_id', 'pc_id=%r, sent on %d (%s)' % (rpc, pc, where)))
                try:
                    got_cmd = {int(e.tag): e.value for e in rmsg.command_set}
                except Exception as exc:
                    got_cmd = {'error': repr(exc)}
                if case.get('flag') is not None and 0x0800 in got_cmd:
                    # (0000,0800) has two meanings only: 0101H and "anything else"; which other value the receiver shows is its business
                    got_cmd[0x0800] = sent_cmd[0x0800] if (got_cmd[0x0800] != 0x0101) == (sent_cmd[0x0800] != 0x0101) else got_cmd[0x0800]
                if set(got_cmd) != set(sent_cmd) or any(str(got_cmd[k]) != str(sent_cmd[k]) for k in sent_cmd):
                    viol.append((sig + ':command-set', 'command set differs: got %r sent %r (%s)' % (got_cmd, sent_cmd, where)))
                ds = rmsg.data_set
                if mode == 'memory':
                    if (ds or b'') != raw:
                        viol.append((sig + ':data', 'data set differs: %d bytes received, %d sent (%s)' % (len(ds or b''), len(raw), where)))
                else:
                    try:
                        if not hasattr(ds, 'read'):
                            viol.append((sig + ':not-a-file', 'file-backed reception handed over %r (%s)' % (type(ds).__name__, where)))
                            continue
                        content = ds.read()
                        ds.seek(0)
                        dcm = pydicom.dcmread(ds)
                        meta, body = _split_file(content)
                        probs = []
                        if body != raw:
                            probs.append('data set bytes in the file (%d) differ from the transmitted ones (%d)' % (len(body), len(raw)))
                        if meta.get((2, 2), b'').rstrip(b'\0').decode() != sop:
                            probs.append('MediaStorageSOPClassUID %r' % meta.get((2, 2)))
                        if meta.get((2, 3), b'').rstrip(b'\0').decode() != '1.2.3.4.5.6.7':
                            probs.append('MediaStorageSOPInstanceUID %r' % meta.get((2, 3)))
                        if meta.get((2, 0x10), b'').rstrip(b'\0').decode() != ts:
                            probs.append('TransferSyntaxUID %r, negotiated %s' % (meta.get((2, 0x10)), ts))
                        if str(dcm.PatientName) != 'Verif^Case' or dcm.Rows != 3:
                            probs.append('file decodes to different values')
                        for pr in probs:
                            viol.append((sig + ':file', '%s (%s ts=%s)' % (pr, where, ts)))
                    except Exception as exc:
                        viol.append((sig + ':file-unreadable', 'file handed to the application is not a readable DICOM file: %r (%s ts=%s)' % (exc, where, ts)))
                    finally:
                        try:
                            ds.close()
                        except Exception:
                            pass
                keys += 1
            if len(viol) > 30:
                break
    finally:
        if tmpdir:
            shutil.rmtree(tmpdir, ignore_errors=True)
    return {'viol': viol[:30], 'case': case if viol else None, 'key': (name, n, mode, ml, case.get('ts'), case.get('pad', case.get('dslen')), case.get('lean'), case.get('flag'), case.get('empty_last')),
            'count': {'compositions': ncomp, 'reassemblies_checked': keys},
            'sample': dict(case, fragments=n, compositions=ncomp) if name in ('CStoreRQMessage',) and ml in (40, 12, 100) else None}


def finalize(rep, tier, seed):
    rep.coverage['distinct_nontrivial'] = rep.coverage.get('reassemblies_checked', 0)
    rep.coverage['evaluations'] = rep.coverage.get('reassemblies_checked', 0)
    rep.coverage['cases'] = rep.evaluations
