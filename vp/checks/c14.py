"""C14 - rejection, abort and release are reported faithfully to both sides (E3 whole stack)."""
import itertools

from .. import common, e3, assoc, ref_pdu

ID = 'C14'
LEVEL = 'model_checking'
CHUNK = 1

VERIF = '1.2.840.10008.1.1'
RULE = ('whole stack on in-memory pipes (real ClientAE.request_association, AssociationRequester, AssociationAcceptor.handle, two '
        'real provider threads) under the baton scheduler. Scenarios: refusal with every (result, source, reason) in {1,2}x{1,2,3}x'
        '{0..10} plus the corners {0,255}^3; abort by the requestor / by the acceptor with reasons {0..6,255} before any DIMSE '
        'exchange, between two exchanges and while the other side waits inside an exchange; release by the requestor (normal exit '
        'of the context manager) and by the acceptor; exceptional exit of the context manager before / between exchanges. The full '
        'value grids run under the default schedule; one representative per scenario kind is explored under ALL schedules with at '
        'most 1 preemption (2 in the thorough tier). distinct/non-trivial = distinct (scenario, parameter, schedule)')
ASSUMPTIONS = ['scheduling points = queue put/get, event set/wait, socket send/recv/close/select, sleep, provider loop head; code between two '
               'points is atomic (CPython GIL granularity for the attribute accesses the library shares between threads)',
               'transport = in-memory pipe; kernel TCP behaviour (RST, Nagle) is not modelled']


def domain(tier):
    return {'preemption_bound': 2 if tier == 'thorough' else 1}


def cases(tier, seed):
    bound = 2 if tier == 'thorough' else 1
    triples = list(itertools.product((1, 2), (1, 2, 3), range(0, 11))) + list(itertools.product((0, 255), repeat=3))
    for t in triples:
        yield {'kind': 'reject', 'triple': list(t), 'bound': 0}
    yield {'kind': 'reject', 'triple': [1, 1, 3], 'bound': bound}
    # other legal ways of raising the refusal: an explanation as further argument, keywords, fields set after construction
    for style in ('extra-arg', 'keywords', 'late-fields'):
        for t in ((1, 1, 7), (2, 3, 2)):
            yield {'kind': 'reject', 'triple': list(t), 'bound': 0, 'style': style}
    # the operating system reports an error when the side that learns of the ending closes its connection: what it was told by the
    # peer is what it reports all the same
    yield {'kind': 'reject', 'triple': [1, 1, 3], 'bound': 0, 'close_error': 'c'}
    yield {'kind': 'abort', 'who': 'acceptor', 'when': 'between', 'reason': 6, 'bound': 0, 'close_error': 'c'}
    yield {'kind': 'abort', 'who': 'requestor', 'when': 'between', 'reason': 2, 'bound': 0, 'close_error': 's'}
    for who in ('requestor', 'acceptor'):
        for when in ('before', 'between', 'during'):
            for reason in (0, 1, 2, 3, 4, 5, 6, 255):
                yield {'kind': 'abort', 'who': who, 'when': when, 'reason': reason, 'bound': 0}
            yield {'kind': 'abort', 'who': who, 'when': when, 'reason': 2, 'bound': bound}
    for reason in (0, 1, 2, 5, 6, 255):
        yield {'kind': 'abort', 'who': 'acceptor', 'when': 'on-request', 'reason': reason, 'bound': 0}
    yield {'kind': 'abort', 'who': 'acceptor', 'when': 'on-request', 'reason': 5, 'bound': bound}
    for exit_ in ('normal', 'error'):
        yield {'kind': 'all-contexts-refused', 'exit': exit_, 'bound': bound}
    for who in ('requestor', 'acceptor'):
        for when in ('before', 'between'):
            yield {'kind': 'release', 'who': who, 'when': when, 'bound': bound}
    yield {'kind': 'release', 'who': 'requestor', 'when': 'between', 'bound': 0, 'in_handler': True}
    yield {'kind': 'exception-exit', 'when': 'between', 'bound': 0, 'in_handler': True}
    # the requestor releases while the acceptor still owes it a response (request and A-RELEASE-RQ back to back)
    yield {'kind': 'release', 'who': 'requestor', 'when': 'during', 'bound': bound, 'count_all': True}
    for when in ('before', 'between'):
        yield {'kind': 'exception-exit', 'when': when, 'bound': bound}


class UserError(Exception):
    pass


def make_scenario(case, obs):
    from pynetdicom2 import applicationentity, sopclass, exceptions, statuses
    kind = case['kind']

    def scenario(sched, net, results):
        svc_calls = []
        events = obs

        class SrvAE(applicationentity.AE):
            def on_association_request(self, asce, assoc_rq):
                if kind == 'reject':
                    r, s_, d = case['triple']
                    if case.get('style') == 'extra-arg':
                        raise exceptions.AssociationRejectedError(r, s_, d, 'called AE title not recognised here')
                    if case.get('style') == 'keywords':
                        raise exceptions.AssociationRejectedError(diagnostic=d, result=r, source=s_)
                    if case.get('style') == 'late-fields':
                        exc = exceptions.AssociationRejectedError(1, 1, 1)
                        exc.result, exc.source, exc.diagnostic = r, s_, d
                        raise exc
                    raise exceptions.AssociationRejectedError(*case['triple'])
                if kind == 'abort' and case['when'] == 'on-request':
                    asce.abort(case['reason'])
                    raise exceptions.AssociationAbortedError(2, case['reason'])

            def on_receive_echo(self, context):
                svc_calls.append('echo')
                return statuses.SUCCESS

        def probe_scp(asce, ctx, msg):
            """SCP service that itself waits for a further message: lets the server side observe how the end of the
            association surfaces (the stock handle() swallows these errors)."""
            svc_calls.append('probe')
            sopclass.verification_scp(asce, ctx, msg)
            if kind == 'abort' and case['who'] == 'acceptor' and case['when'] in ('between', 'during'):
                asce.abort(case['reason'])
                return
            if kind == 'release' and case['who'] == 'acceptor' and case['when'] == 'between':
                results['srv_release'] = type(asce.release()).__name__
                return
            try:
                asce.receive()
                results['srv_seen'] = 'message'
            except exceptions.NetDICOMError as exc:
                results['srv_seen'] = (type(exc).__name__, getattr(exc, 'source', None), getattr(exc, 'reason_diag', None))
                raise
        probe_scp.sop_classes = [VERIF] if kind != 'all-contexts-refused' else ['1.2.840.10008.5.1.4.1.2.1.1']

        class EarlySrvAE(SrvAE):
            pass
        ae = assoc.make_ae('SCP', None, 16384, [probe_scp], cls=SrvAE)
        results['svc_calls'] = svc_calls
        if kind in ('abort', 'release') and case['who'] == 'acceptor' and case['when'] == 'before':
            # the acceptor ends the association right after accepting it: do it from the association-request hook's
            # successor, i.e. a handler that replaces _loop
            from pynetdicom2 import asceprovider
            orig_loop = asceprovider.AssociationAcceptor._loop

            def loop(self):
                if kind == 'abort':
                    self.abort(case['reason'])
                else:
                    results['srv_release'] = type(self.release()).__name__
            ae.vp_loop = loop
        net.close_error_for = case.get('close_error')
        net.listen(('srv', 104), serve(ae))
        cae = applicationentity.ClientAE('SCU', None, 16384).add_scu(sopclass.verification_scu)

        def client():
            if case.get('in_handler'):
                # the association is used from inside an exception handler (a retry after an earlier failure): leaving it
                # normally is still leaving it normally
                try:
                    raise RuntimeError('earlier failure of the application')
                except RuntimeError:
                    return client_body()
            return client_body()

        def client_body():
            remote = {'aet': 'SCP', 'address': 'srv', 'port': 104}
            try:
                with cae.request_association(remote) as asce:
                    results['established'] = True
                    when = case.get('when')
                    echo = asce.get_scu(VERIF) if kind != 'all-contexts-refused' else None
                    if kind == 'abort' and case['who'] == 'requestor':
                        if when == 'before':
                            asce.abort(case['reason'])
                            results['client'] = 'aborted-locally'
                            return
                        results['echo1'] = int(echo(1))
                        if when == 'between':
                            asce.abort(case['reason'])
                            results['client'] = 'aborted-locally'
                            return
                        # during: the server's probe service is now waiting inside receive(); abort under its feet
                        asce.abort(case['reason'])
                        results['client'] = 'aborted-locally'
                        return
                    if kind == 'all-contexts-refused':
                        results['accepted'] = sorted(asce.accepted_contexts)
                        if case['exit'] == 'error':
                            asce.get_scu(VERIF)       # raises ClassNotSupportedError: leaves the block through an error
                        results['client'] = 'leaving-normally'
                        return
                    if kind == 'exception-exit':
                        if when == 'between':
                            results['echo1'] = int(echo(1))
                        raise UserError('user code failed')
                    if kind == 'release' and case['who'] == 'requestor' and when == 'during':
                        from pynetdicom2 import dimsemessages
                        rq = dimsemessages.CEchoRQMessage()
                        rq.message_id = 1
                        rq.sop_class_uid = VERIF
                        asce.send(rq, [k for k, v in asce.accepted_contexts.items() if str(v.sop_class) == VERIF][0])
                        results['client'] = 'leaving-normally'
                        return
                    if kind == 'release' and case['who'] == 'requestor':
                        if when == 'between':
                            results['echo1'] = int(echo(1))
                        results['client'] = 'leaving-normally'
                        return
                    # the other side ends the association: we are inside (or about to enter) an exchange
                    if when == 'before':
                        try:
                            asce.receive()
                            results['client'] = 'message'
                        except exceptions.NetDICOMError as exc:
                            results['client'] = (type(exc).__name__, getattr(exc, 'source', None), getattr(exc, 'reason_diag', None))
                            raise
                    else:
                        results['echo1'] = int(echo(1))
                        try:
                            asce.receive()
                            results['client'] = 'message'
                        except exceptions.NetDICOMError as exc:
                            results['client'] = (type(exc).__name__, getattr(exc, 'source', None), getattr(exc, 'reason_diag', None))
                            raise
            except exceptions.AssociationRejectedError as exc:
                results['rejected'] = (exc.result, exc.source, exc.diagnostic)
            except UserError:
                results['reraised'] = 'UserError'
            except exceptions.AssociationAbortedError as exc:
                results['client_exit'] = type(exc).__name__
                results['abort_fields'] = (exc.source, exc.reason_diag)
            except exceptions.NetDICOMError as exc:
                results['client_exit'] = type(exc).__name__
            finally:
                results['client_done'] = True
        sched.spawn(client, 'client')
    return scenario


def serve(ae):
    from pynetdicom2 import asceprovider
    base = e3.serve_ae(ae)
    if not hasattr(ae, 'vp_loop'):
        return base

    def handler(request, client_address):
        orig = asceprovider.AssociationAcceptor._loop
        asceprovider.AssociationAcceptor._loop = ae.vp_loop
        try:
            base(request, client_address)
        finally:
            asceprovider.AssociationAcceptor._loop = orig
    return handler


def wire_pdus(out):
    """-> {'c': [...client-sent PDU summaries], 's': [...server-sent]}"""
    from .. import e2
    res = {}
    for side in ('c', 's'):
        data = b''.join(d for n, d in out.wire if n.startswith(side))
        res[side] = e2.summarize_wire(data)
    return res


def judge(case, out):
    viol = []
    kind = case['kind']
    sig = 'c14:%s' % kind
    r = out.results
    where = '%s schedule=%s results=%s' % (common.short(case, 120), ''.join(map(str, [c for c in out.choices if c])) or 'default', common.short(r, 300))
    if out.deadlock or out.overrun:
        viol.append((sig + ':deadlock' if out.deadlock else sig + ':unbounded-wait', 'execution %s: %r (%s)' % (
            'deadlocked' if out.deadlock else 'exceeded its virtual-time horizon', out.deadlock or out.overrun, where)))
        return viol
    if out.crashed:
        viol.append((sig + ':thread-crash:%s' % out.crashed[0][1].split('(')[0], 'thread %s died: %s (%s)' % (out.crashed[0][0], out.crashed[0][1], where)))
    w = wire_pdus(out)
    names_c = [x[0] for x in w['c']]
    names_s = [x[0] for x in w['s']]
    for x in w['c'] + w['s']:
        if x[0] in ('MALFORMED', 'TRAILING-BYTES'):
            viol.append((sig + ':malformed-output', 'malformed bytes on the wire %r (%s)' % (x, where)))
    if kind == 'reject':
        t = tuple(case['triple'])
        rj = [x for x in w['s'] if x[0] == 'A-ASSOCIATE-RJ']
        if len(rj) != 1 or rj[0][1:] != t:
            viol.append((sig + ':wire', 'A-ASSOCIATE-RJ on the wire %r, application refused with %r (%s)' % (rj, t, where)))
        if r.get('rejected') != t:
            viol.append((sig + ':error-fields', 'requestor got %r, application refused with %r (%s)' % (r.get('rejected'), t, where)))
        if r.get('svc_calls') or r.get('established') or 'A-ASSOCIATE-AC' in names_s:
            viol.append((sig + ':service-ran', 'service calls %r / established=%r on a refused association (%s)' % (r.get('svc_calls'), r.get('established'), where)))
    elif kind == 'abort':
        who, reason = case['who'], case['reason']
        src = 0 if who == 'requestor' else 2
        ab = [x for x in (w['c'] if who == 'requestor' else w['s']) if x[0] == 'A-ABORT']
        if len(ab) != 1 or ab[0][1:] != (src, reason):
            viol.append((sig + ':wire', 'A-ABORT PDUs sent by the %s: %r, expected one with (source %d, reason %d) (%s)' % (who, ab, src, reason, where)))
        seen = r.get('srv_seen') if who == 'requestor' else r.get('client')
        exp = ('AssociationAbortedError', src, reason)
        if who == 'acceptor' and case['when'] == 'on-request':
            if r.get('client_exit') != 'AssociationAbortedError' and r.get('client') is None:
                viol.append((sig + ':not-surfaced', 'the requestor did not see the abort sent in reply to its request (%s)' % where))
            seen = r.get('abort_fields')
            if seen is not None and seen != (src, reason):
                viol.append((sig + ':error-fields', 'the requestor saw abort %r, the acceptor sent (%d, %d) (%s)' % (seen, src, reason, where)))
            elif seen is None:
                viol.append((sig + ':not-surfaced', 'no AssociationAbortedError with fields reached the requestor (%s)' % where))
            seen = exp
        elif who == 'requestor' and case['when'] == 'before':
            pass    # the server has not entered any service yet: nothing to observe beyond the wire
        elif who == 'requestor' and case['when'] == 'between' and seen is None:
            viol.append((sig + ':not-surfaced', 'the acceptor side never saw the abort (%s)' % where))
        elif seen is not None and seen != exp and not (who == 'requestor' and case['when'] == 'before'):
            viol.append((sig + ':error-fields', 'the other side saw %r, expected %r (%s)' % (seen, exp, where)))
        elif seen is None and who == 'acceptor':
            viol.append((sig + ':not-surfaced', 'the requestor never saw the abort (%s)' % where))
        if 'A-RELEASE-RQ' in names_c + names_s:
            viol.append((sig + ':release-on-abort', 'A-RELEASE-RQ on the wire of an aborted association (%s)' % where))
    elif kind == 'release':
        who = case['who']
        mine, other = (names_c, names_s) if who == 'requestor' else (names_s, names_c)
        # (a requestor whose user code lets AssociationReleasedError escape the context manager aborts: that is the
        # documented 'leaving through an error aborts', so nothing is required of its answer to an acceptor's release)
        if mine.count('A-RELEASE-RQ') != 1 or (who == 'requestor' and 'A-ABORT' in names_c + names_s):
            viol.append((sig + ':wire', 'releasing side sent %r, other side %r: expected exactly one A-RELEASE-RQ and no A-ABORT (%s)' % (mine, other, where)))
        if who == 'requestor' and other.count('A-RELEASE-RP') != 1:
            viol.append((sig + ':no-release-rp', 'the released side answered %r (%s)' % (other, where)))
        if who == 'requestor' and case['when'] == 'during' and other.count('P-DATA-TF') != 1:
            viol.append((sig + ':response-lost', 'the request sent just before the release was answered with %r (%s)' % (other, where)))
        if who == 'requestor':
            if case['when'] == 'between' and r.get('srv_seen') != ('AssociationReleasedError', None, None):
                viol.append((sig + ':error-type', 'the acceptor side saw %r, expected AssociationReleasedError (%s)' % (r.get('srv_seen'), where)))
        else:
            if r.get('client') != ('AssociationReleasedError', None, None):
                viol.append((sig + ':error-type', 'the requestor saw %r, expected AssociationReleasedError (%s)' % (r.get('client'), where)))
            elif names_c.count('A-ABORT') != 1 and 'A-RELEASE-RP' not in names_c:
                # the user's block let the error escape: that is leaving the association through an error
                viol.append((sig + ':error-exit-without-abort', 'the requestor left the association through AssociationReleasedError and put %r on the wire '
                             '(leaving through an error aborts) (%s)' % (names_c, where)))
    elif kind == 'all-contexts-refused':
        if r.get('accepted') != []:
            viol.append((sig + ':setup', 'expected an association without any accepted context, got %r (%s)' % (r.get('accepted'), where)))
        if case['exit'] == 'normal' and (names_c.count('A-RELEASE-RQ') != 1 or 'A-ABORT' in names_c):
            viol.append((sig + ':normal-exit', 'leaving normally an association whose contexts were all refused put %r on the wire (expected one A-RELEASE-RQ) (%s)' % (names_c, where)))
        if case['exit'] == 'error' and (names_c.count('A-ABORT') != 1 or 'A-RELEASE-RQ' in names_c):
            viol.append((sig + ':error-exit', 'leaving through an error an association whose contexts were all refused put %r on the wire (expected one A-ABORT) (%s)' % (names_c, where)))
    elif kind == 'exception-exit':
        ab = [x for x in w['c'] if x[0] == 'A-ABORT']
        if len(ab) != 1 or ab[0][1] != 0 or 'A-RELEASE-RQ' in names_c:
            viol.append((sig + ':wire', 'leaving the context manager through an exception put %r on the wire (expected one A-ABORT with source 0, no A-RELEASE-RQ) (%s)' % (w['c'], where)))
        if r.get('reraised') != 'UserError':
            viol.append((sig + ':not-reraised', 'the user\'s exception was not re-raised (%s)' % where))
    if not r.get('client_done'):
        viol.append((sig + ':client-stuck', 'the requesting thread did not finish (%s)' % where))
    if out.open_ends:
        viol.append((sig + ':transport-left-open', 'transport endpoints still open at the end: %r (%s)' % (out.open_ends, where)))
    return viol


def run_case(case):
    common.import_repo()
    viol = []
    obs = []
    outcomes = set()
    sc = make_scenario(case, obs)
    if 'schedule' in case:
        out = e3.execute(sc, case['schedule'])
        return {'viol': judge(case, out), 'case': case}
    first_bad = [None]

    def on(out):
        v = judge(case, out)
        outcomes.add(common.short(out.results, 500))
        if v and first_bad[0] is None:
            first_bad[0] = list(out.choices)
        viol.extend(v)
        return bool(v)
    stats = e3.explore(sc, case['bound'], on, max_exec=20000, count_all=bool(case.get('count_all')))
    # determinism: the default schedule replayed must give the same trace
    a, b = e3.execute(sc, []), e3.execute(sc, [])
    if a.points != b.points or a.results != b.results:
        raise common.HarnessError('nondeterministic execution of %r' % (case,))
    dedup = {}
    for s, m in viol:
        dedup.setdefault(s, m)
    return {'viol': list(dedup.items()), 'case': dict(case, schedule=first_bad[0]) if viol else None,
            'key': (case['kind'], str(case.get('triple')), case.get('who'), case.get('when'), case.get('reason'), case['bound'], case.get('in_handler'), case.get('style'), case.get('close_error')),
            'count': {'schedules': stats['executions'], 'decisions': stats['decisions'], 'capped': int(stats['capped'])},
            'outcomes': len(outcomes),
            'sample': dict(case, schedules=stats['executions'], points=stats['max_points']) if case['bound'] else None}


def finalize(rep, tier, seed):
    c = rep.coverage
    c['states'] = c.get('decisions', 0)
    c['transitions'] = c.get('decisions', 0)
    c['traces_validated_against_impl'] = c.get('schedules', 0)
    c['evaluations'] = c.get('schedules', 0)
    c['preemption_bound_completed'] = 2 if tier == 'thorough' else 1
    c['explanation'] = ('schedules = complete executions of the real threads under the baton scheduler; states/transitions = scheduling '
                        'decisions taken; every execution runs on the implementation')
    rep.exhaustive = not c.get('capped')
