"""C11 - requester: well-formed proposal, accepted contexts and service lookup agree (E1)."""
import itertools

from .. import common, assoc, stubs, pdugen

ID = 'C11'
LEVEL = 'exploration'
CHUNK = 20
RULE = ('configuration programs = every sequence of 1..2 calls (3 for list sizes <=3) over {add_scu(service), add_scu(service, '
        'explicit list), add_scp(service)} x SOP-class list sizes {1,2,3,63,64,65,127,128,129,139} x overlapping/disjoint '
        'class pools x supported-TS subsets x max_pdu_length grid x remote-AE credential shapes; for proposals of <=3 '
        'contexts every reply pattern over result codes {0..4}^n x returned TS (each proposed one, one unproposed) x an '
        'optional never-proposed context id; for large proposals all-accept / all-reject / alternating / first / last / '
        'middle. Real AssociationRequester.request over a stub provider; reply decoded from reference-built bytes. '
        'distinct/non-trivial = distinct (program, reply pattern) pairs')
ASSUMPTIONS = ['reply items in canonical order; reply carries a Maximum Length sub-item',
               'get_scu oracle: callable iff the class was added as SCU and has an accepted proposed context']

SIZES = [1, 2, 3, 63, 64, 65, 127, 128, 129, 139]
TS_ALL = ['1.2.840.10008.1.2', '1.2.840.10008.1.2.1', '1.2.840.10008.1.2.2']


def cls(i):
    return '1.2.826.0.1.3680043.9.%d' % (1000 + i)


def ops():
    out = []
    for kind in ('scu', 'scu_explicit', 'scp'):
        for k in SIZES:
            for off in (0, 200):
                out.append((kind, k, off))
    for k in (2, 3):
        out.append(('scu_dup', k, 0))       # a list that names its first class twice
        out.append(('scp_dup', k, 200))
    for mask in (1, 2, 6):
        out.append(('set_ts', mask, 0))     # supported_ts (public attribute) reassigned between add_* calls
    return out


def domain(tier):
    return {'sizes': SIZES, 'ops': len(ops())}


def cases(tier, seed):
    O = ops()
    small = [o for o in O if o[1] <= 3 or o[0] == 'set_ts']
    variants = [{'ts': 7, 'maxlen': 65536, 'cred': 'none'}]
    progs = [[o] for o in O] + [[a, b] for a in O for b in O] + [[a, b, c] for a in small for b in small for c in small]
    for n, prog in enumerate(progs):
        v = dict(variants[0])
        # rotate the secondary dimensions through the programs so that each value meets every op kind
        v['ts'] = (1, 2, 3, 4, 5, 6, 7)[n % 7]
        v['maxlen'] = (0, 7, 16384, 65536, 2 ** 32 - 1)[n % 5]
        v['cred'] = ('none', 'user', 'userpass', 'kerberos', 'saml', 'jwt', 'extra')[n % 7 if n % 3 == 0 else 0]
        yield dict(v, prog=[list(o) for o in prog])


def _replies(proposed, tslist):
    """proposed: list of (id, sop). yields (label, [(id, result, ts)...])"""
    n = len(proposed)
    if n <= 3:
        tss = tslist[:2] + ['1.2.840.10008.1.2.4.50']
        for results in itertools.product(range(5), repeat=n):
            for tsi in range(len(tss)):
                rep = [(pid, r, tss[(tsi + j) % len(tss)]) for j, ((pid, _), r) in enumerate(zip(proposed, results))]
                yield 'r%s-t%d' % (''.join(map(str, results)), tsi), rep
                if tsi == 0:
                    free = next(i for i in range(1, 256, 2) if i not in [p[0] for p in proposed])
                    yield 'r%s-extra' % ''.join(map(str, results)), rep + [(free, 0, tss[0])]
                    # ... or refused: an answer to a context that was never proposed, with each refusal result, in front or behind
                    for rr in (1, 2, 3, 4):
                        if sum(results) % 4 == rr - 1:
                            yield 'r%s-x%d-extra' % (''.join(map(str, results)), rr), \
                                (rep + [(free, rr, tss[0])]) if rr % 2 else ([(free, rr, tss[0])] + rep)
    else:
        ts = tslist[0]
        ids = [p[0] for p in proposed]
        yield 'all-accept', [(i, 0, ts) for i in ids]
        yield 'all-reject', [(i, 3, ts) for i in ids]
        yield 'alternating', [(i, (j % 2) * 4, ts) for j, i in enumerate(ids)]
        for name, k in (('first', 0), ('last', n - 1), ('middle', n // 2)):
            yield name, [(i, 0 if j == k else 1, ts) for j, i in enumerate(ids)]


def run_case(case):
    common.import_repo()
    from pynetdicom2 import asceprovider, applicationentity, exceptions
    viol = []
    prog = [tuple(o) for o in case['prog']]
    tslist = [t for i, t in enumerate(TS_ALL) if case['ts'] >> i & 1]
    has_scp = any(o[0].startswith('scp') for o in prog)
    if has_scp:
        ae = assoc.make_ae('LOCAL-AE', tslist, case['maxlen'])
    else:
        ae = applicationentity.ClientAE('LOCAL-AE', tslist, case['maxlen'])
    configured = []       # distinct classes in order of first configuration
    as_scu = set()
    try:
        ts_at_add = {}
        cur_ts = list(tslist)
        for kind, k, off in prog:
            if kind == 'set_ts':
                cur_ts = [t for i, t in enumerate(TS_ALL) if k >> i & 1]
                ae.supported_ts = frozenset(cur_ts)
                continue
            lst = [cls(off + i) for i in range(k)]
            if kind.endswith('_dup'):
                lst = lst + [lst[0]]
                kind = kind[:3]
            for c in lst:
                ts_at_add.setdefault(c, list(cur_ts))
            if kind == 'scu':
                ae.add_scu(assoc.Recorder('scu', lst))
                as_scu.update(lst)
            elif kind == 'scu_explicit':
                ae.add_scu(assoc.Recorder('scu-x', [cls(399)]), lst)
                as_scu.update(lst)
            else:
                ae.add_scp(assoc.Recorder('scp', lst))
            for c in lst:
                if c not in configured:
                    configured.append(c)
    except Exception as exc:
        return {'viol': [('c11:config-raises', 'configuration program %r raised %r' % (prog, exc))], 'case': case, 'key': None}
    remote = {'aet': 'REMOTE-AE', 'address': 'peer.example', 'port': 11112}
    cred = case['cred']
    if cred == 'user':
        remote['username'] = 'alice'
    elif cred == 'userpass':
        remote['username'], remote['password'] = 'alice', 's3cret'
    elif cred in ('kerberos', 'saml', 'jwt'):
        remote[cred] = 'TICKET-' + cred
    elif cred == 'extra':
        from pynetdicom2 import userdataitems
        remote['user_data'] = [userdataitems.ImplementationVersionNameSubItem('VERIF1')]
    where = 'program=%r ts=%r maxlen=%d cred=%s' % (prog, tslist, case['maxlen'], cred)
    toomany = len(configured) > 128
    nrep = 0
    first = True
    proposed = None
    reply_iter = None
    done = False
    label = None
    pending = [None]
    while not done:
        with stubs.patched_dul():
            rq = asceprovider.AssociationRequester(ae, ae.max_pdu_length, remote)
        if proposed is None:
            # first run: find out what is proposed (all-accept reply built afterwards)
            reply = None
        else:
            try:
                label, reply = next(reply_iter)
            except StopIteration:
                break
        reply_ml = (16384, 0, 7, 2 ** 32 - 1)[nrep % 4]
        if reply is None:
            # probe request with a reply that rejects everything (we only look at the RQ)
            rq.dul.inbox.append(assoc.decode_pdu(assoc.ac_tree([], max_len=16384)))
        else:
            rq.dul.inbox.append(assoc.decode_pdu(assoc.ac_tree(reply, max_len=reply_ml)))
            if label and label.endswith('extra') and nrep % 2:
                # while the reply is pending the entity is re-configured: the new class gets the very id the reply names
                def late_config(dul, item, _ae=ae):
                    dul.on_send = None
                    _ae.add_scu(assoc.Recorder('late', [cls(397)]))
                rq.dul.on_send = late_config
        nrep += 1
        try:
            rq.request()
        except Exception as exc:
            tagx = 'unproposed-id' if (label or '').endswith('extra') else ('large' if len(configured) > 3 else 'small')
            viol.append(('c11:request-raises:%s:%s' % (type(exc).__name__, tagx), 'request() raised %r with reply %s (%s)' % (exc, label, where)))
            if proposed is None:
                break
            continue
        sent = [p for p in rq.dul.sent if getattr(p, 'pdu_type', None) == 1]
        if proposed is None:
            # ---- proposal checks (once per program)
            if len(sent) != 1:
                viol.append(('c11:rq-count', '%d A-ASSOCIATE-RQ PDUs handed to the provider (%s)' % (len(sent), where)))
                break
            pdu_obj = sent[0]
            pcs_obj = [i for i in pdu_obj.variable_items if type(i).__name__ == 'PresentationContextItemRQ']
            ids = [i.context_id for i in pcs_obj]
            sops = [str(i.abs_sub_item.name) for i in pcs_obj]
            bad_ids = [i for i in ids if not (1 <= i <= 255 and i % 2 == 1)]
            if bad_ids:
                viol.append(('c11:ids-out-of-range:%s' % ('more-than-128-classes' if toomany else 'at-most-128-classes'),
                             'context ids outside odd 1..255: %r... (%d classes configured; %s)' % (bad_ids[:4], len(configured), where)))
            if len(set(ids)) != len(ids):
                viol.append(('c11:ids-duplicate', 'duplicate context ids %r (%s)' % (ids[:10], where)))
            if sorted(sops) != sorted(configured):
                dup = sorted(set(s for s in sops if sops.count(s) > 1))
                missing = [c for c in configured if c not in sops]
                viol.append(('c11:proposal-classes:%s' % ('duplicate' if dup else 'missing' if missing else 'other'),
                             'proposed %d contexts for %d configured classes; proposed twice: %r; not proposed: %r (%s)'
                             % (len(sops), len(configured), dup[:3], missing[:3], where)))
            for i in pcs_obj:
                got_ts = sorted(str(t.name) for t in i.ts_sub_items)
                want_ts = sorted(ts_at_add.get(str(i.abs_sub_item.name), tslist))
                if got_ts != want_ts:
                    viol.append(('c11:proposal-ts', 'context %d (%s) proposes transfer syntaxes %r, configured for it %r (%s)' % (
                        i.context_id, i.abs_sub_item.name, got_ts, want_ts, where)))
                    break
            try:
                tree = pdugen.to_tree(type(pdu_obj).decode(pdu_obj.encode()))
            except Exception as exc:
                tree = None
                if not bad_ids:
                    viol.append(('c11:rq-unencodable', 'A-ASSOCIATE-RQ cannot be encoded: %r (%s)' % (exc, where)))
            if tree is not None:
                if tree['called'] != 'REMOTE-AE' or tree['calling'] != 'LOCAL-AE':
                    viol.append(('c11:ae-titles', 'called=%r calling=%r (%s)' % (tree['called'], tree['calling'], where)))
                apps = [i for i in tree['items'] if i['t'] == 0x10]
                if len(apps) != 1 or apps[0]['name'] != '1.2.840.10008.3.1.1.1':
                    viol.append(('c11:app-context', 'application context items %r' % (apps,)))
                uis = [i for i in tree['items'] if i['t'] == 0x50]
                mls = [s['max'] for u in uis for s in u['subs'] if s['t'] == 0x51]
                if len(uis) != 1 or mls != [case['maxlen']]:
                    viol.append(('c11:max-length-item', 'Maximum Length sub-items %r, configured %d (%s)' % (mls, case['maxlen'], where)))
                ident = [s for u in uis for s in u['subs'] if s['t'] == 0x58]
                exp_ident = {'none': [], 'extra': [], 'user': [(1, b'alice', b'')], 'userpass': [(2, b'alice', b's3cret')],
                             'kerberos': [(3, b'TICKET-kerberos', b'')], 'saml': [(4, b'TICKET-saml', b'')],
                             'jwt': [(5, b'TICKET-jwt', b'')]}[cred]
                if [(s['idtype'], s['primary'], s['secondary']) for s in ident] != exp_ident:
                    viol.append(('c11:user-identity', 'user identity sub-items %r, expected %r (%s)' % (ident, exp_ident, where)))
            proposed = list(zip(ids, sops))
            if bad_ids or len(set(ids)) != len(ids):
                break
            # narrowing this association's own (documented) context table must not change what the entity proposes next time
            if len(rq.context_def_list) > 1:
                rq.context_def_list.pop(sorted(rq.context_def_list)[0])
                with stubs.patched_dul():
                    rq2 = asceprovider.AssociationRequester(ae, ae.max_pdu_length, remote)
                rq2.dul.inbox.append(assoc.decode_pdu(assoc.ac_tree([], max_len=16384)))
                try:
                    rq2.request()
                    sops2 = [str(i.abs_sub_item.name) for p2 in rq2.dul.sent if getattr(p2, 'pdu_type', None) == 1
                             for i in p2.variable_items if type(i).__name__ == 'PresentationContextItemRQ']
                    if sorted(sops2) != sorted(configured):
                        viol.append(('c11:proposal-depends-on-earlier-association', 'after another association narrowed its own context table the entity '
                                     'proposes %d contexts for %d configured classes (%s)' % (len(sops2), len(configured), where)))
                except Exception as exc:
                    viol.append(('c11:request-raises:%s:second' % type(exc).__name__, 'second request() raised %r (%s)' % (exc, where)))
            # the entity is given one more class after an association object has been created and before its request goes
            # out: the request is that association's own (snapshotted, documented) context table, and what the peer then
            # accepts is usable
            if proposed and as_scu and not toomany:
                with stubs.patched_dul():
                    rq3 = asceprovider.AssociationRequester(ae, ae.max_pdu_length, remote)
                snap = sorted((k, str(v.sop_class)) for k, v in rq3.context_def_list.items())
                ae.add_scu(assoc.Recorder('late3', [cls(396)]))
                ts0 = (tslist or ['1.2.840.10008.1.2'])[0]
                rq3.dul.inbox.append(assoc.decode_pdu(assoc.ac_tree([(k, 0, ts0) for k, _ in snap] + ([(max(k for k, _ in snap) + 2, 0, ts0)] if max(k for k, _ in snap) <= 251 else []), max_len=16384)))
                try:
                    rq3.request()
                    got3 = sorted((i.context_id, str(i.abs_sub_item.name)) for p3 in rq3.dul.sent if getattr(p3, 'pdu_type', None) == 1
                                  for i in p3.variable_items if type(i).__name__ == 'PresentationContextItemRQ')
                    if got3 != snap:
                        viol.append(('c11:request-not-the-associations-table', 'association created, entity then given one more class: the request proposes '
                                     '%d contexts, the association\'s own table has %d (%s)' % (len(got3), len(snap), where)))
                    elif sorted(rq3.accepted_contexts) != [k for k, _ in snap]:
                        viol.append(('c11:accepted-contexts:late-class', 'all %d proposed contexts were accepted (plus one never proposed), usable are %r (%s)' % (
                            len(snap), sorted(rq3.accepted_contexts)[:6], where)))
                except Exception as exc:
                    viol.append(('c11:request-raises:%s:late-class' % type(exc).__name__, 'request() raised %r (%s)' % (exc, where)))
                for extra_id in [k for k, v in list(ae.context_def_list.items()) if str(v.sop_class) == cls(396)]:
                    ae.context_def_list.pop(extra_id, None)
                    ae.supported_scu.pop(cls(396), None)
            reply_iter = _replies(proposed, tslist or ['1.2.840.10008.1.2'])
            continue
        # ---- reply checks
        prop = dict(proposed)
        exp = {}
        for pid, res, ts in reply:
            if res == 0 and pid in prop:
                exp[pid] = (prop[pid], ts)
        got = {k: (str(v.sop_class), str(v.supported_ts)) for k, v in rq.accepted_contexts.items()}
        rwhere = 'reply=%s %r (%s)' % (label, reply[:4], where)
        # the entity may have been re-configured while the reply was pending: restore for the next round
        for extra_id in [k for k, v in list(ae.context_def_list.items()) if str(v.sop_class) == cls(397)]:
            ae.context_def_list.pop(extra_id, None)
            ae.supported_scu.pop(cls(397), None)
        if got != exp:
            viol.append(('c11:accepted-contexts', 'accepted_contexts=%r, peer accepted %r among the proposed (%s)' % (got, exp, rwhere)))
        if {k: (str(v.sop_class), str(v.supported_ts)) for k, v in rq.dul.accepted_contexts.items()} != exp:
            viol.append(('c11:provider-contexts', 'provider accepted_contexts differ from the accepted ones (%s)' % rwhere))
        by_class = {}
        for pid, (sop, ts) in exp.items():
            by_class.setdefault(sop, []).append((pid, ts))
        probe = list(dict.fromkeys(configured[:3] + configured[-2:] + [cls(398)]))
        for c in probe:
            try:
                fn = rq.get_scu(c)
                res = fn('arg')
                outcome = ('ok', res[2].id, str(res[2].sop_class), str(res[2].supported_ts))
            except exceptions.ClassNotSupportedError:
                outcome = ('not-supported',)
            except Exception as exc:
                outcome = ('raised', repr(exc))
            if c in as_scu and c in by_class:
                if outcome[0] != 'ok' or (outcome[1], outcome[3]) not in by_class[c] or outcome[2] != c:
                    viol.append(('c11:get_scu-usable', 'get_scu(%s) -> %r, accepted contexts for it %r (%s)' % (c, outcome, by_class[c], rwhere)))
            elif outcome != ('not-supported',):
                viol.append(('c11:get_scu-unusable', 'get_scu(%s) -> %r although %s (%s)' % (
                    c, outcome, 'no accepted context' if c not in by_class else 'never added as SCU', rwhere)))
        if len(viol) > 12:
            break
    return {'viol': viol[:12], 'case': case if viol else None, 'key': (tuple(prog), case['ts'], case['maxlen'], cred),
            'count': {'requests': nrep},
            'sample': dict(case, proposed=len(proposed or [])) if prog == [('scu', 2, 0), ('scp', 3, 200)] else None}


def finalize(rep, tier, seed):
    rep.coverage['cases'] = rep.evaluations
    rep.coverage['evaluations'] = rep.coverage.get('requests', 0)
    rep.coverage['distinct_nontrivial'] = rep.coverage.get('requests', 0)
