"""C08 - transmitted command sets are well-formed (E1 + independent implicit-VR-LE reader)."""
import itertools

from .. import common, msggen, ref_cmd, stubs

ID = 'C08'
LEVEL = 'exploration'
CHUNK = 100
RULE = ('all 23 message classes x {SOP class UID of every length 1..64, SOP instance UID of every length 1..64} x '
        'data set absent/present; x numeric fields all at each of 7 boundary values; x every subset of command fields '
        'left unset; x every sequence of <=2 (3 thorough) field/data-set changes between repeated sends of the same '
        'object through the real Association.send, also for objects built around an existing command set (constructor argument); every send is parsed by the reference reader. '
        'distinct/non-trivial = distinct (class, command-set byte length, #sends, data-set flag)')
ASSUMPTIONS = ['Association is built over a stub provider that records the generator handed to dul.send',
               'out of alphabet: empty file objects as data set']

OPS = ['status', 'dataset_longer', 'dataset_shorter', 'dataset_empty', 'dataset_none', 'counters', 'uid_longer', 'uid_shorter', 'extra_element', 'none']


def domain(tier):
    return {'classes': 23, 'uid_lengths': '1..64', 'numeric_grid': [0, 1, 255, 256, 32767, 32768, 65535],
            'extra_elements': ['ErrorComment', 'OffendingElement', 'ErrorID'], 'ops': OPS, 'op_depth': 3 if tier == 'thorough' else 2}


def cases(tier, seed):
    from ..pdugen import uid_of_len
    names = msggen.CLASS_NAMES
    for name in names:
        for ds in (None, b'', b'\x08\x00\x18\x00\x02\x00\x00\x001.'):
            yield {'cls': name, 'ds': ds, 'ops': []}
            for extra in (['ErrorComment'], ['OffendingElement'], ['ErrorID', 'ErrorComment']):
                yield {'cls': name, 'ds': ds, 'ops': [], 'extra': extra}
    for name in names:
        for n in range(1, 65):
            for ds in (None, b'DATA' * 5):
                yield {'cls': name, 'sop_class': uid_of_len(n), 'ds': ds, 'ops': []}
                yield {'cls': name, 'sop_inst': uid_of_len(n, 3), 'ds': ds, 'ops': []}
    if tier == 'thorough':
        for a in range(1, 65):
            for b in range(1, 65):
                yield {'cls': 'CStoreRQMessage' if (a + b) % 2 else 'NActionRSPMessage', 'sop_class': uid_of_len(a), 'sop_inst': uid_of_len(b, 3),
                       'ds': None if a % 2 else b'xy', 'ops': []}
    for name in names:
        for v in (0, 1, 255, 256, 32767, 32768, 65535):
            for ds in (None, b'ab'):
                yield {'cls': name, 'num': v, 'ds': ds, 'ops': []}
    common.import_repo()
    for name in names:
        fields = msggen.optional_fields(name)
        for k in range(1, len(fields) + 1):
            for sub in itertools.combinations(fields, k):
                yield {'cls': name, 'unset': list(sub), 'ds': None if k % 2 else b'xy', 'ops': []}
    depth = 3 if tier == 'thorough' else 2
    for name in names:
        for d in range(1, depth + 1):
            for seq in itertools.product(OPS, repeat=d):
                for ds in (None, b'INITIAL-DATASET'):
                    for maxlen in ((16384, 40) if d < 3 else (16384,)):
                        yield {'cls': name, 'ds': ds, 'ops': list(seq), 'maxlen': maxlen}
    # the provider thread consumes what Association.send queued only later: the message goes out as it was when it was sent,
    # whatever the sender does to the object in the meantime
    for name in names:
        for ds in (None, b'INITIAL-DATASET'):
            for op in OPS[:-1]:
                yield {'cls': name, 'ds': ds, 'ops': [op], 'defer': True, 'maxlen': 40 if ds else 16384}
    # a message object built around an existing command set (optional constructor argument: relayed / copied command sets),
    # whose data-set flag may say either, then given its data set explicitly before each send
    dsops = ['dataset_none', 'dataset_empty', 'dataset_longer', 'dataset_shorter']
    for name in names:
        for cs_ds in (None, b'PREVIOUS'):
            for d in (1, 2):
                for seq in itertools.product(dsops, repeat=d):
                    yield {'cls': name, 'ds': cs_ds, 'ops': list(seq), 'from_cs': True}
            # ... and around a command set as it was received (relay): raw elements, values padded as the peer liked
            for op in ('dataset_none', 'dataset_longer'):
                yield {'cls': name, 'ds': cs_ds, 'ops': [op], 'from_cs': True, 'from_wire': True}


def _as_received(command_set):
    """The command set as it is after having been RECEIVED from a peer that pads the way PS3.5 allows: AE values padded to 16
    characters, LO values with trailing spaces, UI values NUL-padded to even length; written here element by element in implicit
    VR little endian (group length correct) and decoded by the library's own decoder - a relay sends such an object on."""
    import struct
    from pynetdicom2 import dsutils
    body = b''
    for el in sorted(command_set, key=lambda e: int(e.tag)):
        if int(el.tag) == 0x00000000:
            continue
        v = el.value
        if el.VR == 'US':
            vals = v if isinstance(v, (list, tuple)) or hasattr(v, '__iter__') and not isinstance(v, (str, bytes)) else [v]
            raw = b''.join(struct.pack('<H', int(x)) for x in vals) if v not in (None, '') else b''
        elif el.VR == 'UL':
            raw = struct.pack('<L', int(v)) if v not in (None, '') else b''
        elif el.VR == 'AT':
            vals = v if hasattr(v, '__iter__') and not isinstance(v, (str, bytes)) else ([] if v in (None, '') else [v])
            raw = b''.join(struct.pack('<HH', int(t) >> 16, int(t) & 0xFFFF) for t in vals)
        elif el.VR == 'AE':
            raw = str(v or '').encode('ascii').ljust(16) if v not in (None, '') else b''
        elif el.VR == 'UI':
            raw = str(v or '').encode('ascii')
            raw += b'\0' * (len(raw) % 2)
        else:
            raw = str(v or '').encode('ascii')
            raw = raw + b'    ' if raw else raw
            raw += b' ' * (len(raw) % 2)
        body += struct.pack('<HHL', el.tag.group, el.tag.element, len(raw)) + raw
    data = struct.pack('<HHLL', 0, 0, 4, len(body)) + body
    return dsutils.decode(data, True, True)


def run_case(case):
    common.import_repo()
    case = common.unbytes(case)
    from pynetdicom2 import asceprovider
    name = case['cls']
    kw = {}
    if 'sop_class' in case:
        kw['sop_class'] = case['sop_class']
    if 'sop_inst' in case:
        kw['sop_inst'] = case['sop_inst']
    if 'num' in case:
        v = case['num']
        kw.update(msg_id=v, status=v, priority=v, counters=(v, v, v, v))
    if 'unset' in case:
        kw['unset'] = case['unset']
    msg = msggen.make(name, data_set=case['ds'], **kw)
    for kwd in case.get('extra', ()):
        setattr(msg.command_set, kwd, {'ErrorComment': 'odd', 'OffendingElement': [0x00100010], 'ErrorID': 7}[kwd])
    viol = []
    if case.get('defer'):
        with stubs.patched_dul():
            a1 = asceprovider.Association(stubs.FakeAE(), None, case.get('maxlen', 16384))
            a2 = asceprovider.Association(stubs.FakeAE(), None, case.get('maxlen', 16384))
        a1.send(msggen.make(name, data_set=case['ds'], **kw), 1)
        ref = b''.join(p.encode() for p in a1.dul.sent[-1])
        kept = []
        a2.dul.send = kept.append            # queue only, like the real provider
        a2.send(msg, 1)
        op = case['ops'][0]
        if op == 'status' and hasattr(type(msg), 'status') and 'Status' in msg.command_set:
            msg.status = 0xA700
        elif op == 'dataset_longer':
            msg.data_set = b'LONGER-DATA-SET-' * 3
        elif op == 'dataset_shorter':
            msg.data_set = b'sh'
        elif op == 'dataset_empty':
            msg.data_set = b''
        elif op == 'dataset_none':
            msg.data_set = None
        elif op == 'extra_element':
            msg.command_set.ErrorComment = 'verif comment'
        elif op == 'counters' and 'NumberOfRemainingSuboperations' in msg.command_set:
            msg.num_of_remaining_sub_ops = 1
            msg.num_of_completed_sub_ops = 9
        elif op == 'uid_longer' and msg.sop_class_uid is not None:
            msg.sop_class_uid = '1.2.840.10008.5.1.4.1.2.2.100'
        elif op == 'uid_shorter' and msg.sop_class_uid is not None:
            msg.sop_class_uid = '1.2'
        try:
            got = b''.join(p.encode() for p in kept[0])
        except Exception as exc:
            got = repr(exc)
        if got != ref:
            viol.append(('c08:%s:changed-after-send' % name, 'message sent, then %s applied to the object before the provider consumed it: %s on the wire, '
                         'as sent it was %s' % (op, got.hex()[:80] if isinstance(got, bytes) else got, ref.hex()[:80])))
        return {'viol': viol, 'case': case if viol else None, 'key': (name, 'defer', op, bool(case['ds']))}
    if case.get('from_wire'):
        msg = type(msg)(_as_received(msg.command_set))
    elif case.get('from_cs'):
        import copy
        msg = type(msg)(copy.deepcopy(msg.command_set))
    with stubs.patched_dul():
        assoc = asceprovider.Association(stubs.FakeAE(), None, case.get('maxlen', 16384))
        sends = ([] if case.get('from_cs') else [None]) + list(case['ops'])
        key = None
        for n, op in enumerate(sends):
            if op == 'status' and hasattr(type(msg), 'status') and 'Status' in msg.command_set:
                msg.status = 0xFF00 if n % 2 else 0xA700
            elif op == 'dataset_longer':
                msg.data_set = b'LONGER-DATA-SET-' * (n + 2)
            elif op == 'dataset_shorter':
                msg.data_set = b'sh'
            elif op == 'dataset_empty':
                msg.data_set = b''
            elif op == 'dataset_none':
                msg.data_set = None
            elif op == 'extra_element':
                msg.command_set.ErrorComment = 'verif comment %d' % n
            elif op == 'counters' and 'NumberOfRemainingSuboperations' in msg.command_set:
                msg.num_of_remaining_sub_ops = 10 - n
                msg.num_of_completed_sub_ops = n
            elif op == 'uid_longer' and msg.sop_class_uid is not None:
                msg.sop_class_uid = '1.2.840.10008.5.1.4.1.2.2.%d' % (10 ** n)
            elif op == 'uid_shorter' and msg.sop_class_uid is not None:
                msg.sop_class_uid = '1.%d' % n
            try:
                assoc.send(msg, 1)
            except Exception as exc:
                viol.append(('c08:%s:send-raises' % name, 'Association.send raised %r on send #%d (%s)' % (exc, n + 1, common.short(case))))
                break
            pdus = assoc.dul.sent[-1]
            cmd, data, flags = msggen.collect(pdus)
            probs = ref_cmd.well_formed(cmd, ref_cmd.COMMAND_FIELD[name], has_dataset=bool(data))
            for p in probs:
                kind = p.split('=')[0].split(' ')[0].split(':')[0]
                viol.append(('c08:%s:%s:send%d' % (name, kind, min(n + 1, 2)),
                             '%s on send #%d of the same %s object: %s; command set=%s' % (
                                 'after ops %r' % (sends[1:n + 1],) if n else 'fresh message', n + 1, name, p, cmd.hex())))
            key = (name, len(cmd), len(sends), bool(data))
    return {'viol': viol, 'case': case if viol else None, 'key': key,
            'sample': {'class': name, 'ops': case['ops'], 'cmd_len': key[1] if key else None} if case['ops'] == ['status', 'dataset_longer'] and name == 'CFindRSPMessage' else None}
