"""C13 part 2 - association endings through the whole stack (Association.release/abort/kill,
AssociationAcceptor.handle, request_association) against scripted peers, under the E3 schedule explorer."""
from .. import common, e3, e2, assoc

VERIF = '1.2.840.10008.1.1'
BOUND_S = 15 + 10 + 1 + 2.0     # AE receive timeout + ARTIM + kill grace + margin (virtual seconds)

SCENARIOS = ['echo-release', 'client-abort', 'silent-requestor', 'accepted-then-silent', 'no-reply-to-rq', 'no-reply-to-release',
             'peer-never-closes-after-release', 'peer-never-closes-after-reject', 'peer-disconnects-mid-pdu', 'peer-abort-and-close',
             'never-closes-while-another-association-runs']


def cases(tier):
    bound = 2 if tier == 'thorough' else 1
    for name in SCENARIOS:
        yield {'scenario': name, 'bound': bound}
    # an entity configured to wait for messages as long as it takes (timeout None): the provider's own ARTIM still bounds the
    # waits it is responsible for
    for name in ('silent-requestor', 'peer-never-closes-after-reject', 'peer-never-closes-after-release'):
        yield {'scenario': name, 'bound': 0, 'timeout_none': True}


def make(case):
    from pynetdicom2 import applicationentity, sopclass, exceptions, statuses
    name = case['scenario']

    def scenario(sched, net, results):
        class Srv(applicationentity.AE):
            def on_association_request(self, asce, rq):
                if name == 'peer-never-closes-after-reject':
                    raise exceptions.AssociationRejectedError(1, 1, 3)
        ae = assoc.make_ae('SCP', None, 16384, [sopclass.verification_scp], cls=Srv)
        if case.get('timeout_none'):
            ae.timeout = None
        cae = applicationentity.ClientAE('SCU', None, 16384).add_scu(sopclass.verification_scu)
        remote = {'aet': 'SCP', 'address': 'srv', 'port': 104}
        results['lib_ends'] = []

        def lib_client(body):
            def run():
                try:
                    with cae.request_association(remote) as asce:
                        body(asce)
                    results['client'] = 'ok'
                except exceptions.NetDICOMError as exc:
                    results['client'] = type(exc).__name__
                results['client_done'] = True
            return run

        def raw_client(script):
            """A scripted peer talking to the library's acceptor over a raw pipe end."""
            def run():
                end = net.socket()
                end.name = 'peer'
                end.connect(('srv', 104))
                script(end)
                results['peer_done'] = True
            return run

        def read_pdu(end):
            buf = b''
            while len(buf) < 6:
                d = end.recv(6 - len(buf))
                if not d:
                    return None
                buf += d
            n = int.from_bytes(buf[2:6], 'big')
            while len(buf) < 6 + n:
                d = end.recv(6 + n - len(buf))
                if not d:
                    return None
                buf += d
            return buf

        if name in ('echo-release', 'client-abort'):
            net.listen(('srv', 104), e3.serve_ae(ae))

            def body(asce):
                results['echo'] = int(asce.get_scu(VERIF)(1))
                if name == 'client-abort':
                    asce.abort(2)
            sched.spawn(lib_client(body), 'client')
        elif name == 'never-closes-while-another-association-runs':
            # association A is released by its peer, which then never closes; meanwhile association B is set up and
            # released normally on the same entity: A must still be cleaned up by its own ARTIM
            net.listen(('srv', 104), e3.serve_ae(ae))
            hold = e3.CoopEvent()
            go_b = e3.CoopEvent()

            def script_a(end):
                end.sendall(e2.std_rq())
                results['peer_got'] = e2.summarize_wire(read_pdu(end) or b'')
                end.sendall(e2.std_release())
                results['peer_got2'] = e2.summarize_wire(read_pdu(end) or b'')
                go_b.set()
                hold.wait(60)
            sched.spawn(raw_client(script_a), 'peer')

            def body(asce):
                results['echo'] = int(asce.get_scu(VERIF)(1))

            def client_b():
                go_b.wait(60)
                lib_client(body)()
            sched.spawn(client_b, 'client')
        elif name in ('silent-requestor', 'accepted-then-silent', 'peer-never-closes-after-release', 'peer-never-closes-after-reject',
                      'peer-disconnects-mid-pdu', 'peer-abort-and-close'):
            net.listen(('srv', 104), e3.serve_ae(ae))
            hold = e3.CoopEvent()

            def script(end):
                if name == 'silent-requestor':
                    hold.wait(60)          # never sends anything, never closes
                    return
                end.sendall(e2.std_rq())
                if name == 'peer-never-closes-after-reject':
                    results['peer_got'] = e2.summarize_wire(read_pdu(end) or b'')
                    hold.wait(60)
                    return
                results['peer_got'] = e2.summarize_wire(read_pdu(end) or b'')
                if name == 'accepted-then-silent':
                    hold.wait(60)
                    return
                if name == 'peer-never-closes-after-release':
                    end.sendall(e2.std_release())
                    results['peer_got2'] = e2.summarize_wire(read_pdu(end) or b'')
                    hold.wait(60)
                    return
                if name == 'peer-disconnects-mid-pdu':
                    end.sendall(e2.pdata(1, 3, e2.echo_cmd())[:20])
                    end.close()
                    return
                if name == 'peer-abort-and-close':
                    end.sendall(e2.pdata(1, 3, e2.echo_cmd()) + e2.std_abort(0, 0))
                    end.close()
                    return
            sched.spawn(raw_client(script), 'peer')
        else:
            # the library is the requestor, the peer is a scripted acceptor
            hold = e3.CoopEvent()

            def handler(end, addr):
                end.name = 'peer'
                rq = read_pdu(end)
                results['peer_got'] = e2.summarize_wire(rq or b'')
                if name == 'no-reply-to-rq':
                    hold.wait(60)
                    return
                end.sendall(e2.std_ac())
                nxt = read_pdu(end)
                results['peer_got2'] = e2.summarize_wire(nxt or b'')
                hold.wait(60)        # never answers the release, never closes
            handler.vp_name = 'peer'
            net.listen(('srv', 104), handler)

            def body(asce):
                pass                # leave at once: release
            sched.spawn(lib_client(body), 'client')
    return scenario


def judge(case, out):
    viol = []
    name = case['scenario']
    sig = 'c13:stack:%s' % name
    where = 'scenario=%s schedule=%s results=%s' % (name, ''.join(map(str, [c for c in out.choices if c])) or 'default', common.short(
        {k: v for k, v in out.results.items() if k != 'lib_ends'}, 300))
    lib_threads = [t for t in out.threads if not t[0].startswith('peer')]
    if case.get('timeout_none') and name == 'silent-requestor':
        # the application chose to wait without limit for the peer's request: its handler thread legitimately waits on; what
        # the provider owes is to give the connection up when ARTIM expires
        lib_open = [e for e in out.open_ends if e != 'peer']
        if lib_open:
            viol.append((sig + ':transport-left-open', 'the peer never sent its request; ARTIM (10 s) has long expired and the library still holds %r (%s)' % (lib_open, where)))
        return viol
    if out.deadlock:
        stuck = [x for x in out.deadlock if not x[0].startswith('peer')]
        if stuck:
            viol.append((sig + ':deadlock', 'threads blocked forever: %r (%s)' % (stuck, where)))
    late = [(t[0], None if t[3] is None else round(t[3], 2)) for t in lib_threads if t[3] is None or t[3] > BOUND_S]
    if late and not out.deadlock:
        viol.append((sig + ':not-bounded', 'library threads not finished within %.0f virtual seconds (receive timeout + ARTIM + stop grace): %r (%s)' % (
            BOUND_S, late, where)))
    if out.overrun:
        viol.append((sig + ':unbounded-wait', 'not finished after %.0f virtual seconds: %r (%s)' % (out.elapsed, out.overrun, where)))
    if out.crashed:
        viol.append((sig + ':thread-crash:%s' % out.crashed[0][1].split('(')[0], 'thread %s died: %s (%s)' % (out.crashed[0][0], out.crashed[0][1], where)))
    lib_open = [e for e in out.open_ends if e != 'peer']
    if lib_open and not out.deadlock and not out.overrun:
        viol.append((sig + ':transport-left-open', 'library-side transport endpoints still open when everything had finished: %r (%s)' % (lib_open, where)))
    if name in ('echo-release', 'client-abort', 'no-reply-to-rq', 'no-reply-to-release') and not out.results.get('client_done'):
        viol.append((sig + ':requesting-thread-stuck', 'the requesting thread never finished (%s)' % where))
    return viol


def run_case(case):
    common.import_repo()
    sc = make(case)
    if case.get('schedule') is not None:
        return {'viol': judge(case, e3.execute(sc, case['schedule'])), 'case': case}
    viol = []
    first = [None]
    times = []

    def on(out):
        v = judge(case, out)
        times.append(out.elapsed)
        if v and first[0] is None:
            first[0] = list(out.choices)
        viol.extend(v)
        return bool(v)
    # the scripted peers block for 60 virtual seconds at most: horizon must exceed that
    # with two associations the free (non-preempting) switches alone explode: bound all deviations there
    stats = e3.explore(sc, case['bound'], on, max_exec=8000, count_all=(case['scenario'] == 'never-closes-while-another-association-runs'))
    dedup = {}
    for s, m in viol:
        dedup.setdefault(s, m)
    return {'viol': list(dedup.items()), 'case': dict(case, schedule=first[0]) if viol else None,
            'stats': {'schedules': stats['executions'], 'decisions': stats['decisions'], 'capped': stats['capped'],
                      'max_virtual_seconds': max(times) if times else 0}}


def extend(rep, tier, seed):
    tot = {'schedules': 0, 'decisions': 0}
    per = {}
    for res in common.pmap('vp.checks.c13_stack', 'run_case', cases(tier), chunk=1):
        for s, m in res['viol']:
            rep.add(common.Viol(s, m, res['case']))
        st = res.get('stats', {})
        tot['schedules'] += st.get('schedules', 0)
        tot['decisions'] += st.get('decisions', 0)
        per[len(per)] = st
    rep.coverage['part2_whole_stack'] = {'scenarios': SCENARIOS, 'schedules': tot['schedules'], 'scheduling_decisions': tot['decisions'],
                                         'preemption_bound_completed': 2 if tier == 'thorough' else 1,
                                         'max_virtual_seconds_seen': max([p.get('max_virtual_seconds', 0) for p in per.values()] or [0])}
    rep.coverage['transitions'] = rep.coverage.get('transitions', 0) + tot['decisions']
    rep.coverage['traces_validated_against_impl'] = rep.coverage.get('traces_validated_against_impl', 0) + tot['schedules']
