"""C06 - DIMSE fragmentation: size bound, fragment flags, byte-exact content (E1 + reference codecs)."""
import io
import os
import tempfile

from .. import common, msggen, ref_cmd, ref_pdu, stubs

ID = 'C06'
LEVEL = 'exploration'
CHUNK = 50
RULE = ('message class x data set {absent; every length 1..3F+2 for F<=34; lengths within +-2 of kF (k=1..3) for larger F, '
        'capped at 200 kB} x maximum PDU length {every value 7..40} u {2^k-1, 2^k, 2^k+1 : k=6..32} x context ids (every odd '
        '1..255 on an inner grid) x command-set length varied through UID lengths 1..64; each case is run with the data set '
        'given as bytes, as BytesIO, as a real temporary file, and as BytesIO / file positioned behind a 169-byte header (the way '
        'storage_scu hands over a Part-10 file) through the real Association.send, and all PDU byte '
        'sequences must be identical. distinct/non-trivial = distinct (#command fragments, #data fragments, size of last '
        'command fragment, size of last data fragment, maxlen class)')
ASSUMPTIONS = ['F = maxlen - 6 (4-byte PDV length + context id + control header inside the P-DATA-TF variable field)',
               'maxlen < 7 and maxlen = 0 are outside C06 (C10 owns 0)',
               'absolute data-set sizes capped at 200 kB: for 2^k-scale limits only "smaller than one fragment" is exercised']

CAP = 200000


def maxlens(tier):
    out = list(range(7, 41))
    for k in range(6, 33):
        for d in (-1, 0, 1):
            v = 2 ** k + d
            if v <= 2 ** 32 - 1 and v not in out:
                out.append(v)
    return out


def ds_lengths(F, full):
    if F <= 34 and full:
        return list(range(1, 3 * F + 3))
    out = set([1, 2])
    for k in (1, 2, 3):
        for d in (-2, -1, 0, 1, 2):
            v = k * F + d
            if 1 <= v <= CAP:
                out.add(v)
    return sorted(out)


def domain(tier):
    return {'maxlens': maxlens(tier), 'cap_bytes': CAP}


def cases(tier, seed):
    from ..pdugen import uid_of_len
    thorough = tier == 'thorough'
    names = msggen.CLASS_NAMES
    # 1. one class, full length grid for every small maxlen, boundary grid for large ones
    for ml in maxlens(tier):
        F = ml - 6
        for n in [0] + ds_lengths(F, True):
            yield {'cls': 'CStoreRQMessage', 'maxlen': ml, 'dslen': n, 'pc': 1}
    # 2. all classes on a reduced grid
    for name in names:
        for ml in ((7, 8, 9, 13, 16, 22, 40, 64, 128, 16384, 2 ** 32 - 1) if not thorough else maxlens(tier)):
            F = ml - 6
            for n in [0] + ds_lengths(F, thorough and ml <= 40):
                yield {'cls': name, 'maxlen': ml, 'dslen': n, 'pc': 3}
    # 3. command-set length through UID lengths (multiples of F)
    for name in (names if thorough else ['CStoreRQMessage', 'CEchoRQMessage', 'NActionRSPMessage', 'CMoveRSPMessage']):
        for ul in range(1, 65):
            for ml in ((7, 8, 10, 16, 20, 26, 38, 70, 100) if not thorough else (7, 8, 9, 10, 11, 13, 16, 20, 26, 32, 38, 40, 70, 100, 128)):
                yield {'cls': name, 'maxlen': ml, 'dslen': 0 if ul % 2 else 5, 'pc': 5, 'uidlen': ul}
    # 3b. the same message object sent twice with the data set changed in between
    for name in ('CStoreRQMessage', 'CFindRSPMessage', 'NEventReportRQMessage'):
        for ml in (7, 20, 64, 16384):
            for n in (0, 1, ml - 6, 2 * (ml - 6) + 1 if ml < 100 else 50):
                for n2 in (0, 1, ml - 5 if ml < 100 else 9):
                    if n != n2:
                        yield {'cls': name, 'maxlen': ml, 'dslen': n, 'pc': 7, 'resend': n2}
                        # ... while the provider thread has not yet consumed the first one (it goes out as it was sent)
                        yield {'cls': name, 'maxlen': ml, 'dslen': n, 'pc': 7, 'resend': n2, 'lazy': True}
    # 3c. no limit in force (maximum PDU length 0): one fragment per stream, whatever the source
    for name in ('CStoreRQMessage', 'CFindRSPMessage', 'NActionRQMessage'):
        for n in (0, 1, 2, 255, 256, 257, 1000, 70000):
            yield {'cls': name, 'maxlen': 0, 'dslen': n, 'pc': 9}
    # 4. context ids
    for pc in range(1, 256, 2):
        for ml, n in ((7, 3), (20, 29), (16384, 100)):
            yield {'cls': 'CStoreRQMessage', 'maxlen': ml, 'dslen': n, 'pc': pc}


def _data(n, seed=0):
    return bytes(((i * 131 + 7 + seed) & 0xFF) for i in range(n))


class ShortReader(io.BytesIO):
    """A raw stream as the io module defines it: read(n) may return fewer than n bytes (here always n - 1, at least 1) before the
    end of the stream, b'' only at the end."""
    def read(self, n=-1):
        if n is None or n < 0:
            return io.BytesIO.read(self)
        return io.BytesIO.read(self, max(1, n - 1))


def _run(case, source, tmpdir):
    from pynetdicom2 import asceprovider
    from ..pdugen import uid_of_len
    kw = {}
    if case.get('uidlen'):
        kw['sop_class'] = uid_of_len(case['uidlen'])
    n = case['dslen']
    raw = _data(n, case.get('seed', 0))
    ds = None
    if n:
        if source == 'bytes':
            ds = raw
        elif source == 'bytesio':
            ds = io.BytesIO(raw)
        elif source == 'shortread':
            ds = ShortReader(raw)
        elif source == 'file':
            ds = tempfile.TemporaryFile(dir=tmpdir)
            ds.write(raw)
            ds.seek(0)
        else:
            # the way storage_scu hands over a Part-10 file: positioned behind preamble and file meta
            head = b'\0' * 128 + b'DICM' + bytes(range(37))
            ds = io.BytesIO(head + raw) if source == 'bytesio-offset' else tempfile.TemporaryFile(dir=tmpdir)
            if source != 'bytesio-offset':
                ds.write(head + raw)
            ds.seek(len(head))
    msg = msggen.make(case['cls'], data_set=ds, **kw)
    with stubs.patched_dul():
        # the association was created with the local default and negotiated down/up to maxlen afterwards
        assoc = asceprovider.Association(stubs.FakeAE(), None, 65536 if case['maxlen'] != 65536 else 16384)
        assoc.max_pdu_length = case['maxlen']
        kept = []
        if case.get('lazy'):
            assoc.dul.send = kept.append          # queue only, like the real provider
        first_raw = raw
        assoc.send(msg, case['pc'])
        if 'resend' in case:
            # what the C-FIND / C-MOVE providers do: the same object again with another (or no) data set
            n2 = case['resend']
            raw = _data(n2, 1)
            if n2 == 0:
                msg.data_set = None
            elif source == 'bytes':
                msg.data_set = raw
            else:
                msg.data_set = io.BytesIO(raw)
            assoc.send(msg, case['pc'])
        if case.get('lazy'):
            return msg, first_raw, list(kept[0])
        pdus = assoc.dul.sent[-1]
    return msg, raw, pdus


def run_case(case):
    common.import_repo()
    from pynetdicom2 import dsutils
    viol = []
    name, ml, pc = case['cls'], case['maxlen'], case['pc']
    sig = 'c06:%s' % name
    tmpdir = os.environ.get('VP_TMP') or tempfile.gettempdir()
    seqs = {}
    key = None
    sources = ('bytes', 'bytesio', 'file', 'bytesio-offset', 'file-offset', 'shortread') if case['dslen'] else ('bytes',)
    if 'resend' in case:
        sources = ('bytes', 'bytesio')
    dslen_eff = case['dslen'] if case.get('lazy') else case.get('resend', case['dslen'])
    for source in sources:
        try:
            msg, raw, pdus = _run(case, source, tmpdir)
        except Exception as exc:
            viol.append((sig + ':raises:' + source, 'send raised %r for %s' % (exc, case)))
            continue
        enc = [p.encode() for p in pdus]
        if source != 'shortread':
            # (where the source delivers less than asked for, fragments may be shorter: the rules below hold, the cut points differ)
            seqs[source] = enc
        cmd, data, flags = msggen.collect(pdus)
        hdrs = [f[1] for f in flags]
        where = 'maxlen=%d dslen=%d source=%s pc=%d%s' % (ml, dslen_eff, source, pc, (' (first send, consumed after the object was sent again with %d data bytes)' % case['resend'] if case.get('lazy') else
                                                                  ' (second send of the same object, first had %d data bytes)' % case['dslen']) if 'resend' in case else '')
        for p in pdus:
            if len(p.data_value_items) != 1:
                viol.append((sig + ':pdv-count', '%d PDVs in one P-DATA-TF (%s)' % (len(p.data_value_items), where)))
        over = [f[3] for f in flags if f[3] > ml] if ml else []
        if ml == 0 and (ncmd_ := sum(1 for h in hdrs if h in (1, 3))) + sum(1 for h in hdrs if h in (0, 2)) != 1 + (1 if dslen_eff else 0):
            viol.append((sig + ':unlimited-fragments', 'no limit in force: %d fragments %r for a command set and %s (%s)' % (
                len(hdrs), hdrs[:6], 'a data set' if dslen_eff else 'no data set', where)))
        if over:
            viol.append((sig + ':too-long', 'P-DATA-TF with pdu_length %d > maximum %d (%s)' % (max(over), ml, where)))
        if any(f[0] != pc for f in flags):
            viol.append((sig + ':context', 'fragment on context %r, message sent on %d (%s)' % ([f[0] for f in flags if f[0] != pc][:3], pc, where)))
        if any(f[2] <= 0 for f in flags):
            viol.append((sig + ':empty-fragment', 'empty fragment, flags=%r (%s)' % (flags[:8], where)))
        ncmd = sum(1 for h in hdrs if h in (1, 3))
        ndat = sum(1 for h in hdrs if h in (0, 2))
        ok_order = hdrs[:ncmd] == [1] * (ncmd - 1) + [3] and hdrs[ncmd:] == ([0] * (ndat - 1) + [2] if ndat else [])
        if ncmd + ndat != len(hdrs) or not ok_order or ncmd == 0:
            viol.append((sig + ':flags', 'control headers %r are not 1*,3,0*,2 (%s)' % (hdrs[:12] + (['...'] if len(hdrs) > 12 else []), where)))
        if bool(ndat) != bool(dslen_eff):
            viol.append((sig + ':data-presence', '%d data fragments for a data set of %d bytes (%s)' % (ndat, dslen_eff, where)))
        if data != raw:
            viol.append((sig + ':data-content', 'concatenated data fragments (%d bytes) differ from the supplied data set (%d bytes) (%s)'
                         % (len(data), len(raw), where)))
        probs = ref_cmd.well_formed(cmd, ref_cmd.COMMAND_FIELD[name], has_dataset=bool(dslen_eff))
        if probs:
            viol.append((sig + ':command-content', 'reassembled command set malformed: %s (%s)' % (probs[0], where)))
        if not case.get('lazy') and cmd != dsutils.encode(msg.command_set, True, True):
            viol.append((sig + ':command-bytes', 'concatenated command fragments differ from the encoded command set (%s)' % where))
        # wire form of each PDU under the reference parser
        for e, p in zip(enc, pdus):
            try:
                t = ref_pdu.parse(e)
                if t['pdu'] != 4 or [(x['id'], x['data']) for x in t['pdvs']] != [(i.context_id, i.data_value) for i in p.data_value_items]:
                    viol.append((sig + ':wire', 'encoded fragment does not parse back to its PDV (%s)' % where))
                    break
                if ml and len(e) - 6 > ml:
                    viol.append((sig + ':too-long-wire', 'encoded P-DATA-TF has %d bytes after the header > %d (%s)' % (len(e) - 6, ml, where)))
                    break
            except ref_pdu.RefError as exc:
                viol.append((sig + ':wire', 'encoded fragment malformed: %s (%s)' % (exc, where)))
                break
        if source == 'bytes':
            lastc = flags[ncmd - 1][2] if ncmd else None
            lastd = flags[-1][2] if ndat else None
            key = (ncmd, ndat, lastc, lastd, ml if ml < 64 else ml.bit_length())
    if len(set(tuple(v) for v in seqs.values())) > 1:
        viol.append((sig + ':source-differs', 'PDU byte sequences differ between data-set sources %r (maxlen=%d dslen=%d)' % (
            sorted(seqs), ml, case['dslen'])))
    return {'viol': viol, 'case': case if viol else None, 'key': key,
            'sample': dict(case, fragments=key[:2]) if (ml, case['dslen']) in ((9, 7), (2 ** 32 - 1, 2)) else None}
