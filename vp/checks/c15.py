"""C15 - C-STORE delivers the data set intact end-to-end; stored files never clobbered (E3 + grids)."""
import itertools
import os
import shutil
import tempfile

from .. import common, e3, assoc, dsgen
from .c07 import _split_file

ID = 'C15'
LEVEL = 'model_checking'
CHUNK = 4

CT = '1.2.840.10008.5.1.4.1.1.2'
TS = ['1.2.840.10008.1.2', '1.2.840.10008.1.2.1', '1.2.840.10008.1.2.2']
MAXES = [128, 1024, 16384]
RULE = ('whole stack on in-memory pipes under the baton scheduler (real storage_scu, fragmentation, two provider threads, '
        'reassembly, Part-10 writing, storage_scp). Grid A (default schedule): encoded data-set size in {F-1, F, F+1, 2F, 3F+1} for '
        'the fragment size F in force x shape {flat, nested sequence, odd-length values} x 3 transfer syntaxes x (client max, server '
        'max) in {128,1024,16384}^2 x source {Dataset, Part-10 file} x reception {file-backed storage_scp, in-memory SCP}. Grid B: '
        'handler outcome {success, warning B006, failure A700, EventHandlingError} x storage entity {AE temporary file, StorageAE '
        'directory} x store history {same instance 1..3 times, two instances, A-B-A}. Grid C: representative configurations under '
        'ALL schedules with <=1 (2 thorough) preemptions, pipe segmentation {whole, 7 bytes, 1 byte} and a coalescing transport (all '
        'fragments of a message delivered in one read). Grid D: client proposing two transfer syntaxes, provider supporting one. '
        'distinct/non-trivial = distinct (configuration, schedule)')
ASSUMPTIONS = ['data-set content is derived from VERIF_SEED (content is irrelevant to control flow)',
               'real loopback TCP is replaced by the pipe model with enumerated interleavings (DESIGN.md 2.4)']


def domain(tier):
    return {'max_pairs': 9, 'ts': TS, 'preemption_bound': 2 if tier == 'thorough' else 1}


def cases(tier, seed):
    bound = 2 if tier == 'thorough' else 1
    for cm, sm in itertools.product(MAXES, MAXES):
        for ti in range(3):
            for size in ('F-1', 'F', 'F+1', '2F', '3F+1'):
                for shape in ('flat', 'seq', 'odd'):
                    k = MAXES.index(cm) + MAXES.index(sm) + ti + len(size) + len(shape)
                    for source in ('dataset', 'file'):
                        for recep in ('file', 'memory'):
                            if tier == 'quick' and (k + (source == 'file') + 2 * (recep == 'file')) % 7:
                                continue
                            yield {'grid': 'A', 'cmax': cm, 'smax': sm, 'ts': ti, 'size': size, 'shape': shape, 'source': source,
                                   'recep': recep, 'outcome': 'ok', 'entity': 'ae', 'hist': 'A', 'bound': 0, 'seg': None, 'seed': seed}
    for outcome in ('ok', 'warn', 'fail', 'ehe'):
        for entity in ('ae', 'storage-ae'):
            for hist in ('A', 'AA', 'AAA', 'AB', 'ABA'):
                for source in ('dataset', 'file', 'file-nouid'):
                    yield {'grid': 'B', 'cmax': 1024, 'smax': 16384, 'ts': 1, 'size': 'F+1', 'shape': 'flat', 'source': source,
                           'recep': 'file', 'outcome': outcome, 'entity': entity, 'hist': hist, 'bound': 0, 'seg': None, 'seed': seed,
                           'pre_scu': (len(hist) + len(outcome)) % 2 == 0}
    # "no limit" (0) announced by either side or by both
    for cm, sm in ((0, 0), (0, 1024), (1024, 0)):
        for source in ('dataset', 'file'):
            for recep in ('file', 'memory'):
                yield {'grid': 'A', 'cmax': cm, 'smax': sm, 'ts': (cm + sm) // 1024, 'size': '3F+1', 'shape': 'flat', 'source': source,
                       'recep': recep, 'outcome': 'ok', 'entity': 'ae', 'hist': 'A', 'bound': 0, 'seg': None, 'seed': seed}
    # long file sources whose length is an exact multiple of many fragments (block-wise readers)
    for size in ('16F', '32F'):
        for source in ('file', 'dataset'):
            yield {'grid': 'A', 'cmax': 128, 'smax': 4096, 'ts': 0, 'size': size, 'shape': 'flat', 'source': source,
                   'recep': 'file', 'outcome': 'ok', 'entity': 'ae', 'hist': 'A', 'bound': 0, 'seg': None, 'seed': seed}
    for outcome in ('ok-int', 'warn-int'):
        for entity in ('ae', 'storage-ae'):
            yield {'grid': 'B', 'cmax': 1024, 'smax': 16384, 'ts': 1, 'size': 'F+1', 'shape': 'flat', 'source': 'dataset',
                   'recep': 'file', 'outcome': outcome, 'entity': entity, 'hist': 'AB', 'bound': 0, 'seg': None, 'seed': seed}
    # an application-supplied get_file (documented hook returning (file, start)) that appends every instance to one archive file:
    # from the second store on, start is not 0
    for hist in ('A', 'AB', 'ABA'):
        for source in ('dataset', 'file'):
            yield {'grid': 'B', 'cmax': 1024, 'smax': 16384, 'ts': 1, 'size': 'F+1', 'shape': 'flat', 'source': source,
                   'recep': 'file', 'outcome': 'ok', 'entity': 'append-archive', 'hist': hist, 'bound': 0, 'seg': None, 'seed': seed}
    # grid D: the client proposes two transfer syntaxes, the provider supports only one of them (whatever the proposal order)
    for cts in ([0, 1], [1, 2], [0, 2]):
        for sts in cts:
            for source in ('dataset', 'file'):
                for recep in ('file', 'memory'):
                    yield {'grid': 'D', 'cmax': 1024, 'smax': 1024, 'ts': sts, 'client_ts': cts, 'size': 'F+1', 'shape': 'odd', 'source': source,
                           'recep': recep, 'outcome': 'ok', 'entity': 'ae', 'hist': 'A', 'bound': 0, 'seg': None, 'seed': seed}
    # grid C: schedule exploration on configurations with few fragments; segmentation variants under the default schedule
    cfgs = (dict(cmax=1024, smax=16384, ts=0, size='F+1', source='dataset', recep='file', entity='storage-ae', hist='AA'),
            dict(cmax=16384, smax=1024, ts=2, size='F-1', source='file', recep='memory', entity='ae', hist='A'),
            dict(cmax=1024, smax=1024, ts=1, size='F', source='dataset', recep='file', entity='ae', hist='AB'))
    for cfg in cfgs:
        yield dict(cfg, grid='C', shape='flat', outcome='ok', bound=bound, seg=None, seed=seed)
        # coalescing transport: all fragments of a message arrive in one read
        yield dict(cfg, grid='C', shape='flat', outcome='ok', bound=0, seg=None, seed=seed, cork=True)
        yield dict(cfg, grid='C', shape='flat', outcome='ok', bound=0, seg=None, seed=seed, cork=True, size='3F+1')
        for seg in (7, 1):
            yield dict(cfg, grid='C', shape='flat', outcome='ok', bound=0, seg=seg, seed=seed)
        # reads that end 1 and 3 bytes into the header of the next P-DATA-TF (a full-size PDU is limit + 6 bytes on the wire)
        for extra in (1, 3, 5, 6, 7):
            yield dict(cfg, grid='C', shape='flat', outcome='ok', bound=0, seg=None, straddle=extra, seed=seed, size='3F+1', cork=True)
    if tier == 'thorough':
        for cfg in cfgs:
            yield dict(cfg, grid='C', shape='flat', outcome='ok', bound=1, seg=7, seed=seed)


def _dataset(case, inst, variant):
    """Build a data set whose encoding in the negotiated TS has exactly the wanted size relative to F."""
    ts = TS[case['ts']]
    limit = min([x for x in (case['cmax'], case['smax']) if x] or [1024])
    F = limit - 6
    want = {'F-1': F - 1, 'F': F, 'F+1': F + 1, '2F': 2 * F, '3F+1': 3 * F + 1, '16F': 16 * F, '32F': 32 * F}[case['size']]
    shape = {'flat': 'a', 'seq': 'seq', 'odd': 'b'}[case['shape']]
    seed = case.get('seed', 0) * 7 + variant
    def build(pad):
        ds = dsgen.make(shape, seed, sop_class=CT, inst=inst)
        if pad:
            ds.add_new((0x0009, 0x0010), 'LO', 'VERIF')
            ds.add_new((0x0009, 0x1001), 'OB', bytes((i * 7 + seed + 1) & 0xFF for i in range(pad)))
        return ds, dsgen.enc(ds, ts)
    ds, raw = build(0)
    if len(raw) >= want:
        return ds, raw
    _, r2 = build(2)
    overhead = len(r2) - len(raw) - 2
    pad = max(2, want - len(raw) - overhead)
    pad += pad % 2
    for p in (pad, pad + 2, pad + 4):
        ds, raw = build(p)
        if len(raw) >= want:
            return ds, raw
    raise common.HarnessError('cannot size data set (want %d, got %d)' % (want, len(raw)))


def make_scenario(case, tmp):
    import pydicom
    import pynetdicom2
    from pynetdicom2 import applicationentity, sopclass, exceptions, statuses, dimsemessages
    from pydicom import uid
    ts = TS[case['ts']]
    outcome = case['outcome']
    storedir = os.path.join(tmp, 'store')
    os.makedirs(storedir, exist_ok=True)

    def scenario(sched, net, results):
        received = []
        results['received'] = received

        def handle_store(self, context, ds):
            if hasattr(ds, 'read'):
                pos = ds.tell()
                raw = ds.read()
                ds.seek(pos)
                received.append(('file', raw, getattr(ds, 'name', None), str(context.supported_ts), str(context.sop_class)))
            else:
                received.append(('bytes', ds, None, str(context.supported_ts), str(context.sop_class)))
            if outcome == 'ehe':
                raise exceptions.EventHandlingError('cannot store')
            return {'ok': statuses.SUCCESS, 'warn': statuses.C_STORE_ELEMENTS_DISCARDED, 'fail': statuses.C_STORE_OUT_OF_RESOURCES,
                    'ok-int': 0, 'warn-int': 0xB000}[outcome]      # (handlers may answer with a plain status code)

        if case['entity'] == 'storage-ae':
            class Srv(pynetdicom2.StorageAE):
                on_receive_store = handle_store
            ae = Srv(storedir, 'SCP', 0, [ts], case['smax'])
            ae.server_close()
        elif case['entity'] == 'append-archive':
            arch = os.path.join(storedir, 'archive.bin')

            class Srv3(applicationentity.AE):
                on_receive_store = handle_store

                def get_file(self, context, command_set):
                    fp = open(arch, 'a+b')
                    fp.seek(0, 2)
                    return fp, fp.tell()
            ae = assoc.make_ae('SCP', [ts], case['smax'], [], cls=Srv3)
        else:
            class Srv2(applicationentity.AE):
                on_receive_store = handle_store
            ae = assoc.make_ae('SCP', [ts], case['smax'], [], cls=Srv2)
        if case.get('pre_scu'):
            # the entity was configured as storage user for the same class before it was given the storage provider
            ae.add_scu(sopclass.storage_scu, [CT])
        if case['recep'] == 'file':
            def file_scp(asce, ctx, msg):
                return sopclass.storage_scp(asce, ctx, msg)
            file_scp.sop_classes = [CT]
            file_scp.store_in_file = True
            ae.add_scp(file_scp)
        else:
            def mem_scp(asce, ctx, msg):
                try:
                    status = asce.ae.on_receive_store(ctx, msg.data_set)
                except exceptions.EventHandlingError:
                    status = statuses.C_STORE_CANNON_UNDERSTAND
                rsp = dimsemessages.CStoreRSPMessage()
                rsp.message_id_being_responded_to = msg.message_id
                rsp.affected_sop_instance_uid = msg.affected_sop_instance_uid
                rsp.sop_class_uid = msg.sop_class_uid
                rsp.status = int(status)
                asce.send(rsp, ctx.id)
            mem_scp.sop_classes = [CT]
            ae.add_scp(mem_scp)
        net.listen(('srv', 104), e3.serve_ae(ae))
        net.seg = case['seg']
        net.straddle = case.get('straddle')
        net.cork = bool(case.get('cork'))
        results['ae'] = ae
        cae = applicationentity.ClientAE('SCU', [TS[i] for i in case.get('client_ts', [case['ts']])], case['cmax']).add_scu(sopclass.storage_scu, [CT])
        insts = {'A': '1.2.3.4.1', 'B': '1.2.3.4.2'}
        sent = []
        results['sent'] = sent

        def client():
            try:
                with cae.request_association({'aet': 'SCP', 'address': 'srv', 'port': 104}) as asce:
                    store = asce.get_scu(CT)
                    for k, letter in enumerate(case['hist']):
                        ds, raw = _dataset(case, insts[letter], k)
                        if case['source'] in ('file', 'file-nouid'):
                            path = os.path.join(tmp, 'src%d.dcm' % k)
                            fds = pydicom.dataset.FileDataset(path, ds, preamble=b'\0' * 128)
                            fds.file_meta = pydicom.dataset.FileMetaDataset()
                            fds.file_meta.MediaStorageSOPClassUID = CT
                            if case['source'] == 'file':
                                fds.file_meta.MediaStorageSOPInstanceUID = insts[letter]
                            fds.file_meta.TransferSyntaxUID = uid.UID(ts)
                            fds.file_meta.ImplementationClassUID = '1.2.3.4.99'
                            fds.is_implicit_VR, fds.is_little_endian = uid.UID(ts).is_implicit_VR, uid.UID(ts).is_little_endian
                            # 'file-nouid': a file whose meta header lacks (0002,0003): storage_scu falls back to the data set
                            fds.save_as(path, write_like_original=(case['source'] == 'file-nouid'))
                            if case['source'] == 'file':
                                with open(path, 'rb') as fh:
                                    _, raw = _split_file(fh.read())
                            else:
                                with open(path, 'rb') as fh:
                                    if not fh.read().endswith(raw):
                                        raise common.HarnessError('source file does not end with the independently encoded data set')
                            st = store(path, k + 1)
                        else:
                            st = store(ds, k + 1)
                        sent.append((insts[letter], raw, int(st), str(st.status_type)))
                results['client_done'] = True
            except Exception as exc:  # noqa
                import traceback
                results['client_exc'] = repr(exc) + traceback.format_exc()[-400:]
        sched.spawn(client, 'client')
    return scenario, storedir


def judge(case, out, storedir):
    import pydicom
    viol = []
    sig = 'c15'
    r = out.results
    ts = TS[case['ts']]
    where = '%s schedule=%s' % (common.short({k: v for k, v in case.items() if k != 'seed'}, 300), ''.join(map(str, [c for c in out.choices if c])) or 'default')
    if out.deadlock or out.overrun:
        return [(sig + (':deadlock' if out.deadlock else ':unbounded-wait'), 'execution %s %r (%s)' % ('deadlocked' if out.deadlock else 'overran', out.deadlock or out.overrun, where))]
    if out.crashed:
        viol.append((sig + ':thread-crash:%s' % out.crashed[0][1].split('(')[0], 'thread %s died: %s %s (%s)' % (out.crashed[0][0], out.crashed[0][1], out.crashed[0][2][-300:], where)))
    if not r.get('client_done'):
        viol.append((sig + ':client-failed', 'the storing client did not complete: %s (%s)' % (r.get('client_exc'), where)))
        return viol
    sent, received = r['sent'], r['received']
    if len(received) != len(sent):
        viol.append((sig + ':handler-calls', 'on_receive_store called %d times for %d stores (%s)' % (len(received), len(sent), where)))
        return viol
    exp_status = {'ok': 0x0000, 'warn': 0xB006, 'fail': 0xA700, 'ehe': 0xC000, 'ok-int': 0x0000, 'warn-int': 0xB000}[case['outcome']]
    for k, ((inst, raw, st, sttype), (kind, got, fname, gts, gsop)) in enumerate(zip(sent, received)):
        if st != exp_status:
            viol.append((sig + ':status', 'store #%d returned status 0x%04X, the handler answered 0x%04X (%s)' % (k + 1, st, exp_status, where)))
        if gts != ts or gsop != CT:
            viol.append((sig + ':context', 'handler saw context (%s, %s) (%s)' % (gsop, gts, where)))
        if kind == 'bytes':
            if case['recep'] == 'file':
                viol.append((sig + ':not-a-file', 'file-backed reception handed bytes to the handler (%s)' % where))
            if got != raw:
                viol.append((sig + ':content', 'store #%d: handler received %d bytes, %d were sent; first difference at %s (%s)' % (
                    k + 1, len(got), len(raw), next((i for i in range(min(len(got), len(raw))) if got[i] != raw[i]), 'end'), where)))
        elif case['entity'] == 'append-archive':
            if got != raw:
                viol.append((sig + ':content', 'store #%d into an appending archive: the file handed to the handler reads %d bytes from its position, the %d '
                             'transmitted bytes were expected (%s)' % (k + 1, len(got), len(raw), where)))
        else:
            try:
                meta, body = _split_file(got)
                if body != raw:
                    viol.append((sig + ':content', 'store #%d: file handed to the handler holds %d data-set bytes, %d were sent (%s)' % (k + 1, len(body), len(raw), where)))
                if meta.get((2, 3), b'').rstrip(b'\0').decode() != inst or meta.get((2, 2), b'').rstrip(b'\0').decode() != CT:
                    viol.append((sig + ':uids', 'store #%d: file meta names instance %r class %r, sent %s (%s)' % (k + 1, meta.get((2, 3)), meta.get((2, 2)), inst, where)))
                if meta.get((2, 0x10), b'').rstrip(b'\0').decode() != ts:
                    viol.append((sig + ':file-ts', 'store #%d: file meta transfer syntax %r, negotiated %s (%s)' % (k + 1, meta.get((2, 0x10)), ts, where)))
                import io
                d = pydicom.dcmread(io.BytesIO(got))
                if str(d.SOPInstanceUID) != inst:
                    viol.append((sig + ':uids', 'store #%d: data set instance %s, sent %s (%s)' % (k + 1, d.SOPInstanceUID, inst, where)))
            except Exception as exc:
                viol.append((sig + ':file-unreadable', 'store #%d: file handed to the handler is not a readable DICOM file: %r (%s)' % (k + 1, exc, where)))
    if case['entity'] == 'storage-ae' and case['recep'] == 'file':
        files = sorted(os.listdir(storedir))
        if len(files) != len(sent):
            viol.append((sig + ':files-count', '%d files in the storage directory after %d stores: %r (%s)' % (len(files), len(sent), files, where)))
        contents = []
        for f in files:
            try:
                with open(os.path.join(storedir, f), 'rb') as fh:
                    contents.append(_split_file(fh.read())[1])
            except Exception as exc:
                contents.append(None)
                viol.append((sig + ':stored-file-unreadable', 'stored file %s is not a readable DICOM file any more: %r (%s)' % (f, exc, where)))
        want = sorted(raw for _, raw, _, _ in sent)
        if sorted(c for c in contents if c is not None) != want and len(files) == len(sent):
            viol.append((sig + ':stored-content', 'the stored files do not hold the %d transmitted data sets (an earlier file was overwritten or truncated) (%s)' % (len(sent), where)))
    if out.open_ends:
        viol.append((sig + ':transport-left-open', 'endpoints still open: %r (%s)' % (out.open_ends, where)))
    return viol


def run_case(case):
    common.import_repo()
    if 'stack' in case:
        from .. import svc_stack
        return svc_stack.run_case(case, 'c15:')
    tmp = tempfile.mkdtemp(prefix='vp_c15_', dir=os.environ.get('VP_TMP') or None)
    viol = []
    first_bad = [None]
    try:
        holder = {}

        def fresh():
            d = os.path.join(tmp, 'run%d' % len(os.listdir(tmp)))
            os.makedirs(d)
            sc, storedir = make_scenario(case, d)
            holder['storedir'] = storedir
            return sc

        class Scn(object):
            def __call__(self, sched, net, results):
                return fresh()(sched, net, results)
        scn = Scn()
        if 'schedule' in case and case['schedule'] is not None:
            out = e3.execute(scn, case['schedule'])
            return {'viol': judge(case, out, holder['storedir']), 'case': case}
        outcomes = set()

        def on(out):
            v = judge(case, out, holder['storedir'])
            if v and first_bad[0] is None:
                first_bad[0] = list(out.choices)
            viol.extend(v)
            for d in os.listdir(tmp):
                shutil.rmtree(os.path.join(tmp, d), ignore_errors=True)
            return bool(v)
        stats = e3.explore(scn, case['bound'], on, max_exec=6000)
    finally:
        shutil.rmtree(tmp, ignore_errors=True)
    dedup = {}
    for s, m in viol:
        dedup.setdefault(s, m)
    return {'viol': list(dedup.items()), 'case': dict(case, schedule=first_bad[0]) if viol else None,
            'key': tuple(sorted((k, str(v)) for k, v in case.items())),
            'count': {'schedules': stats['executions'], 'decisions': stats['decisions'], 'capped': int(stats['capped'])},
            'sample': dict(case, schedules=stats['executions'], points=stats['max_points']) if case['grid'] == 'C' else None}


def finalize(rep, tier, seed):
    c = rep.coverage
    c['states'] = c.get('decisions', 0)
    c['transitions'] = c.get('decisions', 0)
    c['traces_validated_against_impl'] = c.get('schedules', 0)
    c['evaluations'] = c.get('schedules', 0)
    c['preemption_bound_completed'] = 2 if tier == 'thorough' else 1
    c['explanation'] = 'schedules = complete executions of the real threads; states/transitions = scheduling decisions taken'
    rep.exhaustive = not c.get('capped')
    # two associations storing the same SOP instance into the directory-backed entity at the same time (file-system look-up and
    # create are scheduling points), with and without an earlier copy in the directory
    from .. import svc_stack
    svc_stack.extend(rep, ID, tier, seed, 'vp.checks.c15')
