"""C02 - wire format agrees with PS3.8 / PS3.7 (E1 + independent reference codec, both directions)."""
import itertools

from .. import common, pdugen, ref_pdu

ID = 'C02'
LEVEL = 'exploration'
CHUNK = 100
RULE = ('direction L2R: every PDU value of pdugen.trees encoded by the library and parsed by the strictly length-driven '
        'reference parser (tree equality, len(encode()) == total_length()/pdu_length+6, nested item lengths); '
        'direction R2L: every tree (plus reference-only encodings: AE titles with leading spaces, every permutation of '
        '<=4 sub-item kinds, unknown sub-item types, 1..3 transfer syntaxes, 1..4 PDVs) built by the reference encoder '
        'and decoded by the library (to_tree equality). distinct/non-trivial = distinct (direction, structural shape)')
ASSUMPTIONS = ['reference codec vp/ref_pdu.py transcribed from PS3.8 9.3 / PS3.7 D.3.3, shares no code with the library',
               'the field value of an AE title is the title without its (leading or trailing) padding spaces, PS3.8 9.3.2 - '
               'what fix 9983d2a established for trailing padding']


def domain(tier):
    return {'generator': 'vp/pdugen.py:trees(%s) + reference-only encodings' % tier}


def cases(tier, seed):
    ref_pdu.selftest()
    for label, tree in pdugen.trees(tier):
        yield {'label': label, 'tree': tree, 'lead': 0}
    # reference-only encodings
    K = pdugen.sub_instances()
    for lead in (1, 3):
        yield {'label': 'r2l-ae-lead', 'lead': lead,
               'tree': pdugen.assoc(1, [pdugen.app(), pdugen.pcrq(), pdugen.ui([K['ML'][0]])], called='AB', calling='C')}
    # identity fields that are not text (Kerberos ticket = DER); known finding C02-KF1
    yield {'label': 'r2l-binary-identity-58', 'lead': 0, 'r2l_only': True,
           'tree': pdugen.assoc(1, [pdugen.app(), pdugen.pcrq(),
                                    pdugen.ui([K['ML'][0], dict(K['UID58'][4], primary=b'\x61\x82\x01\xff\xa0\x80ticket')])])}
    yield {'label': 'r2l-binary-identity-59', 'lead': 0, 'r2l_only': True,
           'tree': pdugen.assoc(2, [pdugen.app(), pdugen.pcac(),
                                    pdugen.ui([K['ML'][0], dict(K['UID59'][0], response=b'\x61\x82\x01\xff\xa0\x80ticket')])])}
    n = 4 if tier == 'thorough' else 3
    for k in range(2, n + 1):
        for perm in itertools.permutations(pdugen.KINDS, k):
            yield {'label': 'r2l-perm-' + '-'.join(perm), 'lead': 0, 'r2l_only': True,
                   'tree': pdugen.assoc(1 + (len(perm[0]) % 2), [pdugen.app(), pdugen.pcrq() if len(perm[0]) % 2 == 0 else pdugen.pcac(),
                                                                pdugen.ui([K[x][0] for x in perm])])}


def _lengths_ok(obj, raw, viol, sig, tree):
    """len(encode()) == total_length() at every nesting level the library exposes."""
    def tl(o):
        t = o.total_length
        return t() if callable(t) else t
    try:
        if tl(obj) != len(raw):
            viol.append((sig + ':total_length', 'total_length()=%d but %d bytes emitted; x=%s' % (tl(obj), len(raw), common.short(tree))))
        if hasattr(obj, 'pdu_length') and obj.pdu_length + 6 != len(raw):
            viol.append((sig + ':pdu_length', 'pdu_length=%d but %d bytes follow the header' % (obj.pdu_length, len(raw) - 6)))
        for it in getattr(obj, 'variable_items', []) or []:
            enc = it.encode()
            if tl(it) != len(enc) or it.item_length + 4 != len(enc):
                viol.append((sig + ':item_length:%s' % type(it).__name__,
                             '%s: item_length=%d total_length=%d but %d bytes emitted' % (type(it).__name__, it.item_length, tl(it), len(enc))))
            subs = list(getattr(it, 'user_data', [])) + list(getattr(it, 'ts_sub_items', []))
            for sb in subs + [x for x in (getattr(it, 'abs_sub_item', None), getattr(it, 'ts_sub_item', None)) if x is not None]:
                e2 = sb.encode()
                if tl(sb) != len(e2) or sb.item_length + 4 != len(e2):
                    viol.append((sig + ':item_length:%s' % type(sb).__name__,
                                 '%s: item_length=%d total_length=%d but %d bytes emitted' % (type(sb).__name__, sb.item_length, tl(sb), len(e2))))
        for it in getattr(obj, 'data_value_items', []) or []:
            enc = it.encode()
            if tl(it) != len(enc) or it.item_length + 4 != len(enc):
                viol.append((sig + ':item_length:PDV', 'PDV item_length=%d but %d bytes emitted' % (it.item_length, len(enc))))
    except Exception as exc:
        viol.append((sig + ':length-raises', 'length bookkeeping raised %r' % (exc,)))


def run_case(case):
    common.import_repo()
    tree = common.unbytes(case['tree'])
    label = case['label']
    viol = []
    sig = 'c02:%s' % label
    from pynetdicom2 import pdu as P
    cls = {1: P.AAssociateRqPDU, 2: P.AAssociateAcPDU, 3: P.AAssociateRjPDU, 4: P.PDataTfPDU, 5: P.AReleaseRqPDU,
           6: P.AReleaseRpPDU, 7: P.AAbortPDU}[tree['pdu']]
    # library -> reference
    if not case.get('r2l_only') and not case.get('lead'):
        obj = pdugen.from_tree(tree)
        try:
            raw = obj.encode()
        except Exception as exc:
            raw = None
            viol.append((sig + ':L2R:encode-raises', 'encode() raised %r; x=%s' % (exc, common.short(tree))))
        if raw is not None:
            try:
                parsed = ref_pdu.parse(raw)
                parsed.pop('called_raw', None), parsed.pop('calling_raw', None)
                d = pdugen.diff(tree, parsed)
                if d:
                    viol.append((sig + ':L2R:fields', 'reference parse of encode(x) differs from x at %s; x=%s'
                                 % (d, common.short(tree, 500))))
            except ref_pdu.RefError as exc:
                viol.append((sig + ':L2R:malformed', 'encode(x) is not a well-formed PDU for the reference parser: %s; x=%s'
                             % (exc, common.short(tree, 500))))
            _lengths_ok(obj, raw, viol, sig + ':L2R', tree)
    # library -> reference after the object was changed in place (what AssociationAcceptor.accept does with the request's items)
    if not case.get('r2l_only') and not case.get('lead') and tree['pdu'] in (1, 2, 4):
        try:
            if tree['pdu'] == 4 and len(tree['pdvs']) > 1:
                part = dict(tree, pdvs=tree['pdvs'][:1])
                obj2 = pdugen.from_tree(part)
                obj2.encode()
                for p in tree['pdvs'][1:]:
                    obj2.data_value_items.append(P.PresentationDataValueItem(p['id'], p['data']))
            elif tree['pdu'] in (1, 2) and tree['items'] and tree['items'][-1]['t'] == 0x50 and len(tree['items'][-1]['subs']) > 1:
                part = dict(tree, items=tree['items'][:-1] + [dict(tree['items'][-1], subs=tree['items'][-1]['subs'][:1])])
                obj2 = pdugen.from_tree(part)
                obj2.encode()
                for sb in tree['items'][-1]['subs'][1:]:
                    obj2.variable_items[-1].user_data.append(pdugen.sub_from_tree(sb))
            elif tree['pdu'] in (1, 2) and len(tree['items']) > 1:
                part = dict(tree, items=tree['items'][:1])
                obj2 = pdugen.from_tree(part)
                obj2.encode()
                for it in tree['items'][1:]:
                    obj2.variable_items.append(pdugen.item_from_tree(it))
            else:
                obj2 = None
            if obj2 is not None:
                raw2 = obj2.encode()
                parsed2 = ref_pdu.parse(raw2)
                parsed2.pop('called_raw', None), parsed2.pop('calling_raw', None)
                d2 = pdugen.diff(tree, parsed2)
                if d2:
                    viol.append((sig + ':L2R-after-mutation:fields', 'after appending items to an already encoded object the reference parse differs at %s; x=%s' % (d2, common.short(tree, 400))))
                _lengths_ok(obj2, raw2, viol, sig + ':L2R-after-mutation', tree)
        except ref_pdu.RefError as exc:
            viol.append((sig + ':L2R-after-mutation:malformed', 'after appending items to an already encoded object the PDU is malformed: %s; x=%s' % (exc, common.short(tree, 400))))
        except Exception as exc:
            viol.append((sig + ':L2R-after-mutation:raises', 'encode after in-place change raised %r; x=%s' % (exc, common.short(tree, 400))))
    # reference -> library
    wire = ref_pdu.build(tree, ae_lead=case.get('lead', 0))
    chk = ref_pdu.parse(wire)
    chk.pop('called_raw', None), chk.pop('calling_raw', None)
    if pdugen.diff(tree, chk):
        raise common.HarnessError('reference codec is not self-consistent on %s: %s' % (label, pdugen.diff(tree, chk)))
    try:
        dec = cls.decode(wire)
        if label.startswith('r2l-binary-identity'):
            # the field type (str / bytes) is the library's choice: decoding must work and lose nothing
            got = tree if dec.encode() == wire else dict(tree, reencoded=dec.encode())
        else:
            got = pdugen.to_tree(dec)
        d = pdugen.diff(tree, got)
        if d:
            viol.append((sig + ':R2L:fields', 'library decode of a standard-conformant encoding differs at %s; x=%s'
                         % (d, common.short(tree, 500))))
    except Exception as exc:
        viol.append((sig + ':R2L:decode-raises', 'library decode of a standard-conformant encoding raised %r; x=%s'
                     % (exc, common.short(tree, 500))))
    return {'viol': viol, 'case': case if viol else None, 'key': (bool(case.get('r2l_only')), pdugen.shape(tree)),
            'sample': {'label': label, 'wire_bytes': len(wire)} if label in ('ui-pair-EXT-IVN', 'r2l-ae-lead', 'pdata-2') else None}
