"""C09 - acceptor answers every proposed presentation context correctly (E1 + reference negotiator)."""
import itertools

from .. import common, assoc, pdugen, ref_cmd, msggen

ID = 'C09'
LEVEL = 'exploration'
CHUNK = 8
RULE = ('AE configurations = every subset of served abstract syntaxes {A,B} x every subset of 4 supported transfer syntaxes '
        '(64); requests = 0..2 proposed contexts, each abstract in {A,B,U(nserved)} x every ordered list of 1..3 distinct '
        'transfer syntaxes out of 4 (40 lists; quick: all 40 for 1 context, 10 for 2 contexts), ids odd / unsorted / '
        'non-consecutive, plus 3..4 contexts on a reduced list set; real AssociationAcceptor.accept on a request decoded '
        'from reference-built bytes, then a DIMSE message on every proposed id and on a never-proposed id through the real '
        '_loop. distinct/non-trivial = distinct (configuration, request) pairs with at least one proposed context')
ASSUMPTIONS = ['reference negotiator: accept iff abstract served and some proposed TS supported; chosen TS in proposed & supported',
               'reject reason code not constrained', 'request items in canonical order (application context, contexts, user information)']

A = '1.2.840.10008.1.1'
B = '1.2.840.10008.5.1.4.1.2.1.1'
U = '1.2.840.10008.5.1.4.1.2.2.1'
TS = ['1.2.840.10008.1.2', '1.2.840.10008.1.2.1', '1.2.840.10008.1.2.2', '1.2.840.10008.1.2.4.50']
ABS = [A, B, U]


def ts_lists(reduced):
    out = []
    for k in (1, 2, 3):
        for perm in itertools.permutations(range(4), k):
            out.append(perm)
    if reduced:
        out = [l for l in out if l in ((0,), (1,), (3,), (0, 1), (1, 0), (2, 3), (3, 0), (0, 1, 2), (3, 2, 1), (1, 3, 0))]
    return out


def domain(tier):
    return {'configs': 64, 'ts_lists_1ctx': 40, 'ts_lists_2ctx': 40 if tier == 'thorough' else 10}


def cases(tier, seed):
    thorough = tier == 'thorough'
    for served in range(4):
        for sup in range(16):
            yield {'served': served, 'sup': sup, 'n': 0}
            for a in range(3):
                yield {'served': served, 'sup': sup, 'n': 1, 'a1': a}
                for tl in range(len(ts_lists(not thorough))):
                    yield {'served': served, 'sup': sup, 'n': 2, 'a1': a, 'l1': tl, 'full': thorough}
            yield {'served': served, 'sup': sup, 'n': 34}
            for a in range(3):
                yield {'served': served, 'sup': sup, 'n': 1, 'a1': a, 'pre_scu': True}
                # the supported transfer syntaxes were assigned after the entity had been constructed (with other ones)
                yield {'served': served, 'sup': sup, 'n': 1, 'a1': a, 'late_ts': True}
            yield {'served': served, 'sup': sup, 'n': 2, 'a1': sup % 3, 'l1': sup % 10, 'late_ts': True}
            for sup2 in ((sup * 7 + 3) % 16, 15 - sup):
                if sup2 != sup:
                    yield {'served': served, 'sup': sup, 'n': 1, 'a1': served % 3 if served else 0, 'sup2': sup2}


def _requests(case, thorough_lists):
    full = ts_lists(False)
    red = ts_lists(True)
    n = case['n']
    if n == 0:
        yield []
    elif n == 1:
        for cid in (1, 255):
            for l in full:
                yield [(cid, case['a1'], l)]
    elif n == 2:
        lists = full if case.get('full') else red
        l1 = lists[case['l1']]
        for a2 in range(3):
            for l2 in lists:
                for ids in ((1, 3), (3, 1), (5, 201)):
                    yield [(ids[0], case['a1'], l1), (ids[1], a2, l2)]
    else:
        # 3 and 4 contexts on a reduced list set
        small = [(0,), (3,), (1, 0), (2, 3, 1)]
        for combo in itertools.product(range(3), repeat=3):
            for ls in itertools.product(small, repeat=3):
                yield [(7, combo[0], ls[0]), (1, combo[1], ls[1]), (9, combo[2], ls[2])]
        for combo in itertools.product(range(3), repeat=4):
            yield [(1 + 2 * i, a, small[(i + a) % 4]) for i, a in enumerate(combo)]


def run_case(case):
    common.import_repo()
    from pynetdicom2 import exceptions, asceprovider
    served = [x for i, x in enumerate((A, B)) if case['served'] >> i & 1]
    sup = [t for i, t in enumerate(TS) if case['sup'] >> i & 1]
    svcs = {s: assoc.Recorder('svc-' + s, [s]) for s in served}
    if case.get('late_ts'):
        ae = assoc.make_ae('SCP', [t for t in TS if t not in sup] or None, 65536, [])
        ae.supported_ts = frozenset(sup)
    else:
        ae = assoc.make_ae('SCP', sup, 65536, [])
    if case.get('pre_scu'):
        # the same classes (and an unserved one) were configured as SCU first
        ae.add_scu(assoc.Recorder('as-scu', [A, B, U]))
    for s in served:
        ae.add_scp(svcs[s])
    viol = []
    nreq = 0
    last = []
    phases = [sup] + ([[t for i, t in enumerate(TS) if case['sup2'] >> i & 1]] if 'sup2' in case else [])
    for phase, sup in enumerate(phases):
        if phase:
            # the entity is re-configured between two negotiations of the same proposals: the second answers follow the new set
            ae.supported_ts = frozenset(sup)
        if 'req' in case:
            reqs = [[tuple([r[0], r[1], tuple(r[2])]) for r in case['req']]]
        else:
            reqs = _requests(case, None)
        for req in reqs:
            nreq += 1
            ctxs = [(cid, ABS[a], [TS[i] for i in l]) for cid, a, l in req]
            where = 'served=%r supported=%r%s request=%r' % (served, sup, ' (assigned after an earlier negotiation with %r)' % (phases[0],) if phase else '', ctxs)
            sigb = 'c09:'
            acc = assoc.make_acceptor(ae)
            rq = assoc.decode_pdu(assoc.rq_tree(ctxs, called='SCP-TITLE', calling='SCU-TITLE'))
            at_send = []
            acc.dul.on_send = lambda dul, item: at_send.append({k: (str(v[1]), str(v[2])) for k, v in dul.accepted_contexts.items()})
            try:
                acc.accept(rq)
            except Exception as exc:
                viol.append((sigb + 'accept-raises', 'accept() raised %r (%s)' % (exc, where)))
                continue
            sent = [p for p in acc.dul.sent if getattr(p, 'pdu_type', None) == 2]
            if len(sent) != 1 or len(acc.dul.sent) != 1:
                viol.append((sigb + 'reply-count', 'accept() handed %r to the provider (%s)' % (acc.dul.sent, where)))
                continue
            try:
                ac = pdugen.to_tree(type(sent[0]).decode(sent[0].encode()))
            except Exception as exc:
                viol.append((sigb + 'reply-unencodable', 'A-ASSOCIATE-AC cannot be encoded: %r (%s)' % (exc, where)))
                continue
            pcs = [i for i in ac['items'] if i['t'] == 0x21]
            if [p['id'] for p in pcs] != [c[0] for c in ctxs]:
                viol.append((sigb + 'ids', 'reply context ids %r, proposed %r (%s)' % ([p['id'] for p in pcs], [c[0] for c in ctxs], where)))
                continue
            expected_accept = {}
            for (cid, ab, tl), p in zip(ctxs, pcs):
                ok = ab in served and any(t in sup for t in tl)
                if (p['result'] == 0) != ok:
                    viol.append((sigb + ('accepted-unacceptable' if p['result'] == 0 else 'rejected-acceptable'),
                                 'context %d (%s, %r): result %d, reference says %s (%s)' % (cid, ab, tl, p['result'], 'accept' if ok else 'reject', where)))
                if p['result'] == 0:
                    if p['ts']['name'] not in tl or p['ts']['name'] not in sup:
                        viol.append((sigb + 'ts-choice', 'context %d answered with transfer syntax %r, proposed %r, supported %r'
                                     % (cid, p['ts']['name'], tl, sup)))
                    expected_accept[cid] = (ab, p['ts']['name'])
            if ac['called'] != 'SCP-TITLE' or ac['calling'] != 'SCU-TITLE':
                viol.append((sigb + 'ae-titles', 'reply titles called=%r calling=%r' % (ac['called'], ac['calling'])))
            apps = [i for i in ac['items'] if i['t'] == 0x10]
            if len(apps) != 1 or apps[0]['name'] != pdugen.APP_CTX:
                viol.append((sigb + 'app-context', 'reply application context items %r' % (apps,)))
            # the provider thread sends the reply and may read the peer's first message before accept() returns: what it needs to
            # decode that message must be in place when the reply is handed over
            if at_send and at_send[0] != expected_accept:
                viol.append((sigb + 'provider-table-late', 'when the A-ASSOCIATE-AC was handed to the provider, the provider\'s accepted contexts were %r; '
                             'the reply accepts %r (%s)' % (at_send[0], expected_accept, where)))
            # internal tables = what was reported
            tables = {'accepted_contexts': acc.accepted_contexts, 'sop_classes_as_scp': acc.sop_classes_as_scp,
                      'dul.accepted_contexts': acc.dul.accepted_contexts}
            for tname, tab in tables.items():
                try:
                    got = {k: (str(v[1]), str(v[2])) for k, v in tab.items()}
                except Exception:   # noqa  (a table of another shape is not the documented table)
                    got = 'table of another shape: %r' % (dict(list(tab.items())[:2]),)
                if got != expected_accept:
                    viol.append((sigb + 'table:' + tname, '%s=%r but the reply accepted %r (%s)' % (tname, got, expected_accept, where)))
            # dispatch through the real _loop
            for cid in [c[0] for c in ctxs] + [77]:
                ab = dict((c[0], c[1]) for c in ctxs).get(cid, A)
                for s in svcs.values():
                    s.calls = []
                msg = msggen.make('CEchoRQMessage', sop_class=ab)
                acc.dul.inbox.clear()
                acc.dul.inbox.append((msg, cid))
                acc.is_killed = False
                outcome = None
                try:
                    acc._loop()
                    outcome = 'returned'
                except exceptions.ClassNotSupportedError:
                    outcome = 'not-supported'
                except exceptions.DCMTimeoutError:
                    outcome = 'served'
                except Exception as exc:
                    outcome = 'raised %r' % (exc,)
                calls = [(s.name, c[1]) for s in svcs.values() for c in s.calls]
                if cid in expected_accept:
                    exp_ctx = asceprovider.PContextDef(cid, expected_accept[cid][0], expected_accept[cid][1])
                    good = (outcome == 'served' and len(calls) == 1 and calls[0][0] == 'svc-' + expected_accept[cid][0] and
                            tuple(map(str, calls[0][1])) == tuple(map(str, exp_ctx)))
                    if not good:
                        viol.append((sigb + 'dispatch-accepted', 'message on accepted context %d: outcome %s, service calls %r, expected %r (%s)'
                                     % (cid, outcome, calls, exp_ctx, where)))
                else:
                    if outcome != 'not-supported' or calls:
                        viol.append((sigb + 'dispatch-unaccepted', 'message on context %d that was not accepted: outcome %s, service calls %r (%s)'
                                     % (cid, outcome, calls, where)))
            # several messages through ONE run of the dispatch loop: every order of two accepted contexts, and an accepted one
            # followed by one that was not accepted (same SOP class) - the loop must not carry anything over from message to message
            ab_of = dict((c[0], c[1]) for c in ctxs)
            acc_ids = [c[0] for c in ctxs if c[0] in expected_accept]
            seqs = [list(p) for p in itertools.permutations(acc_ids, 2)] + [[a_, a_] for a_ in acc_ids[:1]]
            seqs += [[g, b] for g in acc_ids for b in [c[0] for c in ctxs if c[0] not in expected_accept] + [77]]
            for seq in seqs:
                for s in svcs.values():
                    s.calls = []
                acc.dul.inbox.clear()
                for cid in seq:
                    cls_uid = ab_of.get(cid, ab_of[seq[0]])
                    if cid not in expected_accept:
                        cls_uid = ab_of[seq[0]]          # a message of the class just served, on a context that was not accepted
                    acc.dul.inbox.append((msggen.make('CEchoRQMessage', sop_class=cls_uid), cid))
                acc.is_killed = False
                try:
                    acc._loop()
                    outcome = 'returned'
                except exceptions.ClassNotSupportedError:
                    outcome = 'not-supported'
                except exceptions.DCMTimeoutError:
                    outcome = 'served'
                except Exception as exc:
                    outcome = 'raised %r' % (exc,)
                calls = [tuple(map(str, c[1])) for s in svcs.values() for c in s.calls]
                good_ids = [cid for cid in seq if cid in expected_accept]
                exp_calls = [tuple(map(str, asceprovider.PContextDef(cid, expected_accept[cid][0], expected_accept[cid][1]))) for cid in good_ids]
                exp_out = 'served' if len(good_ids) == len(seq) else 'not-supported'
                if outcome != exp_out or sorted(calls) != sorted(exp_calls) or (len(set(expected_accept[c][0] for c in good_ids)) == 1 and calls != exp_calls):
                    viol.append((sigb + 'dispatch-sequence', 'messages on contexts %r in one run of the dispatch loop: outcome %s, services called with %r, '
                                 'expected %s with %r (%s)' % (seq, outcome, calls, exp_out, exp_calls, where)))
            if len(viol) > 20:
                break
            last = req
    return {'viol': viol[:20], 'case': dict(case, req=[list(r) for r in last]) if viol and nreq else (case if viol else None),
            'key': (case['served'], case['sup'], case['n'], case.get('a1'), case.get('l1'), case.get('pre_scu'), case.get('late_ts'), case.get('sup2')),
            'count': {'accept_calls': nreq},
            'sample': {'served': served, 'supported': sup, 'request': ctxs} if case['n'] == 2 and case['sup'] == 5 and case['served'] == 3 and case['a1'] == 0 and case['l1'] == 4 else None}


def finalize(rep, tier, seed):
    rep.coverage['cases'] = rep.evaluations
    rep.coverage['evaluations'] = rep.coverage.get('accept_calls', 0)
    rep.coverage['distinct_nontrivial'] = rep.coverage.get('accept_calls', 0) - 64
