"""C12 - no byte sequence from the peer can crash or hang the provider (E2 + fault catalogue)."""
import itertools
import signal

from .. import common, e2, model, ref_pdu, pdugen
from . import c05

ID = 'C12'
LEVEL = 'model_checking'
CHUNK = 200

STATES = ['Sta2', 'Sta3', 'Sta5', 'Sta6', 'Sta7', 'Sta13', 'Sta8', 'Sta9', 'Sta10', 'Sta11', 'Sta12']


def prefix(state):
    U = lambda *s: ('user', s)
    rq, ac = ('pdu', e2.std_rq()), ('pdu', e2.std_ac())
    return {
        'Sta2': ('ac', []),
        'Sta3': ('ac', [rq]),
        'Sta5': ('rq', [U('assoc_rq')]),
        'Sta6': ('ac', [rq, U('accept')]),
        'Sta7': ('rq', [U('assoc_rq'), ac, U('release_rq')]),
        'Sta13': ('ac', [rq, U('accept'), ('pdu', e2.std_release()), U('release_rp')]),
        # release requested by the peer, local response outstanding; and the four release-collision states
        'Sta8': ('ac', [rq, U('accept'), ('pdu', e2.std_release())]),
        'Sta9': ('rq', [U('assoc_rq'), ac, U('release_rq'), ('pdu', e2.std_release())]),
        'Sta10': ('ac', [rq, U('accept'), U('release_rq'), ('pdu', e2.std_release())]),
        'Sta11': ('rq', [U('assoc_rq'), ac, U('release_rq'), ('pdu', e2.std_release()), ('pdu', e2.std_release(True))]),
        'Sta12': ('ac', [rq, U('accept'), U('release_rq'), ('pdu', e2.std_release()), ('pdu', e2.std_release(True))]),
    }[state]


def seeds(state):
    echo = e2.pdata(1, 3, e2.echo_cmd())
    store = e2.pdata(3, 3, c05.cmd(True))
    data = e2.pdata(3, 2, c05.DATASET)
    two = ref_pdu.build(pdugen.pdata([(1, b'\x03' + e2.echo_cmd()), (1, b'\x03' + e2.echo_cmd(9))]))
    S = {'rq': e2.std_rq(), 'ac': e2.std_ac(), 'rj': e2.std_rj(), 'rel': e2.std_release(), 'relp': e2.std_release(True),
         'abort': e2.std_abort(2, 1), 'echo': echo, 'store': store, 'data': data, 'two-pdv': two}
    pick = {'Sta2': ['rq', 'ac', 'echo', 'rel', 'abort'], 'Sta3': ['rq', 'echo', 'abort'], 'Sta5': ['ac', 'rj', 'abort', 'echo'],
            'Sta6': ['echo', 'store', 'two-pdv', 'rel', 'abort', 'rq', 'data'], 'Sta7': ['echo', 'relp', 'rel', 'abort', 'store'],
            'Sta13': ['rq', 'abort', 'echo', 'relp'], 'Sta8': ['echo', 'rel', 'abort'], 'Sta9': ['relp', 'echo', 'abort'],
            'Sta10': ['relp', 'echo', 'rq'], 'Sta11': ['relp', 'echo', 'abort'], 'Sta12': ['rel', 'echo', 'abort']}[state]
    return [(k, S[k]) for k in pick]


def length_fields(raw):
    """(offset, width) of every length field of a well-formed PDU (independent walker)."""
    out = [(2, 4)]
    t = raw[0]
    if t in (1, 2):
        i = 74
        while i + 4 <= len(raw):
            it, ln = raw[i], int.from_bytes(raw[i + 2:i + 4], 'big')
            out.append((i + 2, 2))
            if it in (0x20, 0x21, 0x50):
                j = i + 4 + (4 if it in (0x20, 0x21) else 0)
                end = i + 4 + ln
                while j + 4 <= end:
                    st, sl = raw[j], int.from_bytes(raw[j + 2:j + 4], 'big')
                    out.append((j + 2, 2))
                    if st in (0x54, 0x56, 0x59):
                        out.append((j + 4, 2))
                    if st == 0x58:
                        out.append((j + 6, 2))
                    j += 4 + sl
            i += 4 + ln
    elif t == 4:
        i = 6
        while i + 4 <= len(raw):
            ln = int.from_bytes(raw[i:i + 4], 'big')
            out.append((i, 4))
            i += 4 + ln
    return out


def type_bytes(raw):
    out = [0]
    if raw[0] in (1, 2):
        i = 74
        while i + 4 <= len(raw):
            it, ln = raw[i], int.from_bytes(raw[i + 2:i + 4], 'big')
            out.append(i)
            if it in (0x20, 0x21, 0x50):
                j = i + 4 + (4 if it in (0x20, 0x21) else 0)
                while j + 4 <= i + 4 + ln:
                    out.append(j)
                    j += 4 + int.from_bytes(raw[j + 2:j + 4], 'big')
            i += 4 + ln
    return out


def fix_len(raw):
    return raw[:2] + (len(raw) - 6).to_bytes(4, 'big') + raw[6:] if len(raw) >= 6 else raw


def cmd_mutants():
    """P-DATA PDUs whose PDVs are unusable at DIMSE level."""
    import pydicom
    from .. import dsgen
    out = []
    good = e2.echo_cmd()
    for hdr in (4, 5, 0x80, 0xFF, 0x7F):
        out.append(('ctl-header-%02x' % hdr, e2.pdata(1, hdr, good)))
    for k in (1, 4, 7, 8, 11, 12, 13, 20, len(good) - 1):
        out.append(('cmd-truncated-%d' % k, e2.pdata(1, 3, good[:k])))
    out.append(('cmd-empty', e2.pdata(1, 3, b'')))
    bad_len = bytearray(good)
    bad_len[16:20] = (0xFFFFFFF0).to_bytes(4, 'little')
    out.append(('cmd-element-length-huge', e2.pdata(1, 3, bytes(bad_len))))
    bad_len2 = bytearray(good)
    bad_len2[16:20] = (3).to_bytes(4, 'little')
    out.append(('cmd-element-length-odd', e2.pdata(1, 3, bytes(bad_len2))))
    for missing, label in (((0x0000, 0x0100), 'no-command-field'), ((0x0000, 0x0800), 'no-dataset-type'), ((0x0000, 0x0002), 'no-sop-class')):
        ds = dsgen.dec(good, '1.2.840.10008.1.2')
        del ds[missing]
        out.append((label, e2.pdata(1, 3, dsgen.enc(ds, '1.2.840.10008.1.2'))))
    ds = dsgen.dec(good, '1.2.840.10008.1.2')
    ds.CommandField = 0x7777
    out.append(('unknown-command-field', e2.pdata(1, 3, dsgen.enc(ds, '1.2.840.10008.1.2'))))
    out.append(('unaccepted-context', e2.pdata(99, 3, good)))
    out.append(('data-before-command', e2.pdata(3, 2, b'abcdef')))
    out.append(('pdv-length-0', bytes([4, 0]) + (4).to_bytes(4, 'big') + (0).to_bytes(4, 'big')))
    out.append(('pdv-length-1', bytes([4, 0]) + (5).to_bytes(4, 'big') + (1).to_bytes(4, 'big') + b'\x01'))
    out.append(('pdv-length-oversize', bytes([4, 0]) + (8).to_bytes(4, 'big') + (400).to_bytes(4, 'big') + b'\x01\x03ab'))
    out.append(('pdu-empty-body', bytes([4, 0]) + (0).to_bytes(4, 'big')))
    # file-backed reception path with a broken command (AffectedSOPInstanceUID missing)
    return out


def mutants(label, raw, thorough):
    """Deterministic, complete catalogue for one seed PDU: (mutation label, byte string)."""
    n = len(raw)
    for k in range(0, n):
        yield 'trunc-%d' % k, raw[:k]
        if k >= 6:
            yield 'trunc-fixed-%d' % k, fix_len(raw[:k])
    for off, w in length_fields(raw):
        cur = int.from_bytes(raw[off:off + w], 'big')
        for v in sorted(set([0, 1, max(cur - 1, 0), cur + 1, (1 << (8 * w)) - 1, (1 << (8 * w - 1))])):
            if v != cur:
                yield 'len@%d=%d' % (off, v), raw[:off] + v.to_bytes(w, 'big') + raw[off + w:]
    for off in type_bytes(raw):
        for v in (0x00, 0x08, 0x11, 0x57, 0xFF):
            if raw[off] != v:
                yield 'type@%d=%02x' % (off, v), raw[:off] + bytes([v]) + raw[off + 1:]
    for bit in range(0, min(n, 80) * 8):
        b = bytearray(raw)
        b[bit // 8] ^= 1 << (bit % 8)
        yield 'flip-%d' % bit, bytes(b)
    if raw[0] in (1, 2):
        offs = list(range(10, 42, 3 if not thorough else 1)) + list(range(78, min(n, 160), 5 if not thorough else 1))
        for off in offs:
            for v in (0x80, 0xFF, 0x00):
                if off < n and raw[off] != v:
                    yield 'text@%d=%02x' % (off, v), raw[:off] + bytes([v]) + raw[off + 1:]


def tiny(thorough):
    types = range(256) if thorough else list(range(0, 12)) + [0x10, 0x20, 0x50, 0x7F, 0x80, 0xFE, 0xFF]
    for t in types:
        yield 'tiny-%02x-empty' % t, bytes([t, 0, 0, 0, 0, 0])
        for b in (range(256) if thorough else (0, 1, 2, 3, 4, 7, 0x10, 0x7F, 0x80, 0xFF)):
            yield 'tiny-%02x-%02x' % (t, b), bytes([t, 0, 0, 0, 0, 1, b])
        grid = (0, 1, 2, 3, 7, 0x80, 0xFF) if not thorough else (0, 1, 2, 3, 4, 5, 6, 7, 8, 0x10, 0x40, 0x7F, 0x80, 0xC0, 0xFE, 0xFF)
        for b1, b2 in itertools.product(grid, repeat=2):
            yield 'tiny-%02x-%02x%02x' % (t, b1, b2), bytes([t, 0, 0, 0, 0, 2, b1, b2])


def cases(tier, seed):
    thorough = tier == 'thorough'
    for state in STATES:
        for sname, raw in seeds(state):
            for mlabel, mraw in mutants(sname, raw, thorough):
                for ending in ('close', 'silence'):
                    if ending == 'silence' and not thorough and not (mlabel.startswith('len@') or mlabel.startswith('type@') or
                                                                    mlabel.startswith('trunc-fixed') and int(mlabel.split('-')[-1]) % 5 == 0):
                        continue
                    yield {'state': state, 'seed': sname, 'mut': mlabel, 'bytes': mraw, 'ending': ending}
        if state == 'Sta2':
            # a request whose AE titles hold non-ASCII characters in valid UTF-8: if the library takes it for a valid request, the
            # local user can accept it, and the answer repeats those titles
            raw = e2.std_rq()
            for off in (10, 12, 26, 30):
                yield {'state': state, 'seed': 'rq', 'mut': 'title-utf8@%d' % off, 'bytes': raw[:off] + b'\xc3\xa9' + raw[off + 2:], 'ending': 'accept-then-close'}
            # ... and bytes that are no text at all
            for off in (10, 13, 26, 41):
                for v in (0xE9, 0xFF, 0x80):
                    yield {'state': state, 'seed': 'rq', 'mut': 'title-byte@%d=%02x' % (off, v), 'bytes': raw[:off] + bytes([v]) + raw[off + 1:],
                           'ending': 'accept-then-close'}
            yield {'state': state, 'seed': 'rq', 'mut': 'none', 'bytes': raw, 'ending': 'accept-then-close'}
        if state in ('Sta6', 'Sta7'):
            for mlabel, mraw in cmd_mutants():
                for ending in ('close', 'silence'):
                    yield {'state': state, 'seed': 'dimse', 'mut': mlabel, 'bytes': mraw, 'ending': ending}
                # after a valid first fragment
                yield {'state': state, 'seed': 'dimse-after-fragment', 'mut': mlabel, 'bytes': e2.pdata(1, 1, e2.echo_cmd()[:10]) + mraw, 'ending': 'close'}
        for mlabel, mraw in tiny(thorough):
            yield {'state': state, 'seed': 'tiny', 'mut': mlabel, 'bytes': mraw, 'ending': 'close'}
            if mlabel.endswith('-empty') or thorough:
                yield {'state': state, 'seed': 'tiny', 'mut': mlabel, 'bytes': mraw, 'ending': 'reset'}
            if mlabel.endswith('-empty'):
                # the peer closes and the operating system reports an error when the provider closes its own end
                yield {'state': state, 'seed': 'tiny', 'mut': mlabel, 'bytes': mraw, 'ending': 'close-error'}
        # the peer does not go quiet after the fault but sends one more stray PDU 6 s later: where the fault armed ARTIM, nothing
        # re-arms it (AA-7), the connection is closed 10 s after the fault
        for mlabel, mraw in (('type@0=57', b'\x57' + seeds(state)[0][1][1:]), ('tiny-0a-empty', bytes([0x0A, 0, 0, 0, 0, 0]))):
            yield {'state': state, 'seed': seeds(state)[0][0] if mlabel.startswith('type') else 'tiny', 'mut': mlabel, 'bytes': mraw, 'ending': 'chatter'}
            # the peer is already gone when the provider tries to answer: the A-ABORT cannot be written any more, the local user
            # still has to be told and the provider has to end up idle
            yield {'state': state, 'seed': seeds(state)[0][0] if mlabel.startswith('type') else 'tiny', 'mut': mlabel, 'bytes': mraw, 'ending': 'send-fails'}
            # what the peer sent fills one read (or two) exactly and then the peer waits for the answer: a full read says nothing
            # about more being on its way
            for div in (1, 2):
                if len(mraw) % div == 0:
                    yield {'state': state, 'seed': seeds(state)[0][0] if mlabel.startswith('type') else 'tiny', 'mut': mlabel, 'bytes': mraw,
                           'ending': 'silence', 'mpl': len(mraw) // div}
        for sname, raw in seeds(state):
            for k in (1, 5, 6, 7, len(raw) - 1, len(raw)):
                yield {'state': state, 'seed': sname, 'mut': 'trunc-%d' % k, 'bytes': raw[:k], 'ending': 'reset'}
            yield {'state': state, 'seed': sname, 'mut': 'type@0=57', 'bytes': b'\x57' + raw[1:], 'ending': 'reset'}


def domain(tier):
    return {'states': STATES, 'seeds': {s: [k for k, _ in seeds(s)] for s in STATES}}


RULE = ('for each of 11 protocol states (Sta2, 3, 5..13: every state with a connection, reached by a fixed valid prefix) x each seed PDU valid or plausible there: every truncation '
        'offset (length left / fixed up), every length field (PDU, item, sub-item, UID length, PDV) set to 0, 1, len-1, len+1, half '
        'and full range, every type byte set to 00/08/11/57/FF, every single-bit flip in the first 80 bytes, text bytes set to '
        '80/FF/00, the DIMSE-level catalogue (control header, truncated/corrupt command set, missing elements, unknown command '
        'field, unaccepted context, PDV length 0/1/oversize) and all tiny PDUs (0-, 1- and 2-byte bodies on a grid under every '
        'type byte); each followed by peer close, by a connection reset (recv() fails; on a subset), and (thorough: all, quick: the structural ones) by peer silence past ARTIM. '
        'Oracle: run() never raises / hangs / blocks; every byte written parses as a well-formed PDU; step-by-step agreement '
        'with the TLA+ model where each framed chunk is classified by the library\'s own decoder (undecodable -> invalid-PDU '
        'event); final state idle with the transport closed. distinct/non-trivial = distinct (state, seed, mutation, ending)')
ASSUMPTIONS = ['a chunk that the library\'s own PDU decoder accepts is by definition a valid PDU of its type (C01/C02 own the decoders)',
               'P-DATA-TF in Sta6/Sta7 whose PDVs are unusable at DIMSE level may either be absorbed (incomplete message) or answered '
               'with a provider abort (AA-8); both are accepted',
               'byte strings outside the catalogue are not covered']

_DELTA = None


def _classify(chunk):
    from pynetdicom2 import dulprovider
    t = chunk[0]
    if t not in dulprovider.PDU_TYPES:
        return ['Evt19']
    cls, _ = dulprovider.PDU_TYPES[t]
    try:
        cls.decode(chunk)
    except Exception:
        return ['Evt19']
    return {1: ['Evt6'], 2: ['Evt3'], 3: ['Evt4'], 4: ['Evt10c', 'Evt10p', 'Evt19'], 5: ['Evt12'], 6: ['Evt13'], 7: ['Evt16']}[t]


class _Timeout(BaseException):
    pass


def _alarm(signum, frame):
    raise _Timeout()


def run_case(case):
    global _DELTA
    common.import_repo()
    case = common.unbytes(case)
    if _DELTA is None:
        _DELTA, _ = model.automaton(False)
    delta = _DELTA
    state = case['state']
    role, pre = prefix(state)
    stream = case['bytes']
    chunks, rest = ref_pdu.split_stream(stream)
    hist = list(pre) + ([('gone',)] if case['ending'] == 'send-fails' else []) + [('bytes', c) for c in chunks]
    if rest:
        hist.append(('bytes', rest))
    n_pre = len(pre)
    if case['ending'] == 'close':
        hist.append(('close',))
    elif case['ending'] == 'close-error':
        hist += [('close-error',), ('close',)]
    elif case['ending'] == 'reset':
        hist.append(('reset',))       # the peer goes away without reading what the provider answered: recv() fails
    elif case['ending'] == 'send-fails':
        hist.append(('reset',))
    elif case['ending'] == 'accept-then-close':
        hist += [('user', ('accept_echo',)), ('close',)]
    elif case['ending'] == 'chatter':
        hist += [('tick', 6.0), ('bytes', bytes([0x0B, 0, 0, 0, 0, 2, 1, 2])), ('tick', 4.5)]
    else:
        hist += [('tick', 5.0), ('tick', 5.5)]
    viol = []
    sig = 'c12:%s' % state
    where = 'state=%s seed=%s mutation=%s ending=%s%s bytes=%s' % (state, case['seed'], case['mut'], case['ending'], ' read-size=%d' % case['mpl'] if case.get('mpl') else '',
                                                                    stream[:40].hex() + ('..' if len(stream) > 40 else ''))
    old = signal.signal(signal.SIGALRM, _alarm)
    signal.alarm(30)
    try:
        env = e2.Env(role, hist, budget=2000, **({'max_pdu_length': case['mpl']} if case.get('mpl') else {})).run()
    except _Timeout:
        return {'viol': [(sig + ':decoder-hang', 'a decoder did not terminate within 30 s (%s)' % where)], 'case': case, 'key': None}
    finally:
        signal.alarm(0)
        signal.signal(signal.SIGALRM, old)
    fin = env.final
    if fin['status'] in ('raised', 'hang', 'blocked-recv'):
        viol.append((sig + ':loop-%s:%s' % (fin['status'], (fin['exc'] or '').split('(')[0]),
                     'provider loop %s: %s (%s)' % (fin['status'], fin['exc'], where)))
    # model walk
    a = c05.Abs(role, delta)
    m = a.m
    for ev in pre:
        mev = {'pdu': None}.get(ev[0])
        if ev[0] == 'pdu':
            mevs = _classify(ev[1])[:1]
        else:
            mevs = {'assoc_rq': ['Evt1', 'Evt2'], 'accept': ['Evt7'], 'release_rq': ['Evt11'], 'release_rp': ['Evt14']}[ev[1][0]]
        for x in mevs:
            m = delta[m][x][1]
    indicated = any(x[0] in ('A-ASSOCIATE-RQ', 'A-ASSOCIATE-AC') for st in env.steps for x in st['inds'])
    told_gone = state == 'Sta13'
    ok_model = True
    for i, st in enumerate(env.steps):
        wire = e2.summarize_wire(st['wire'])
        for w in wire:
            if w[0] in ('MALFORMED', 'TRAILING-BYTES'):
                viol.append((sig + ':malformed-output', 'bytes written by the library are not a well-formed PDU: %r (%s)' % (w, where)))
        if any(x[0] in ('A-ABORT', 'A-RELEASE-RP', 'A-ASSOCIATE-RJ') for x in st['inds']):
            told_gone = True
        if i <= n_pre or not ok_model or st['ev'][0] in ('idle', 'end') or 'state' not in st:
            continue
        if case['ending'] == 'chatter' and i > n_pre + len(chunks) + (1 if rest else 0):
            continue        # judged at the end (elapsed time since ARTIM was armed)
        if case['ending'] == 'send-fails':
            continue        # nothing can be written: judged at the end (idle, closed, user told)
        ev = st['ev']
        if ev[0] == 'bytes':
            is_chunk = (i - n_pre - 1) < len(chunks)
            cands = _classify(ev[1]) if is_chunk else [None]
        elif ev[0] in ('close', 'reset'):
            cands = ['Evt17']
        elif ev[0] == 'user':
            cands = ['Evt7'] if 'Evt7' in delta.get(m, {}) else [None]
        elif ev[0] == 'close-error':
            cands = [None]          # arming the error is not an event of the protocol
        else:
            cands = ['Evt18'] if (m[2] and ev[1] == 5.5) else [None]
        obs = ([w[0] for w in wire], [x[0] for x in st['inds']], st['state'] + 1, st['timer'], st['sock'])
        matched = None
        exp_list = []
        for c in cands:
            if c is None or m[3] != 'open' and c not in ('Evt18',):
                exp = ([], [], m[0], m[2], m[3])
                nxt = m
            elif c not in delta.get(m, {}):
                continue
            else:
                outs, nxt = delta[m][c]
                exp = ([o[5:].replace('(provider)', '') for o in outs if o.startswith('send:')],
                       ['A-ABORT' if o[4:] == 'A-P-ABORT' else o[4:] for o in outs if o.startswith('ind:')], nxt[0], nxt[2], nxt[3])
            exp_list.append((c, exp))
            if exp == obs:
                matched = nxt
                break
        if matched is None:
            ok_model = False
            if fin['status'] not in ('raised', 'hang', 'blocked-recv'):
                viol.append((sig + ':reaction:%s' % (cands[0] or 'none'),
                             'reaction to chunk %r in model state %r: observed (wire, indications, state, timer, socket) = %r; the protocol '
                             'machine allows %r (%s)' % (ev[1][:16].hex() if ev[0] == 'bytes' else ev, m, obs, exp_list, where)))
        else:
            m = matched
    if fin['status'] == 'quiescent-end':
        if case['ending'] in ('close', 'close-error', 'reset', 'send-fails', 'accept-then-close') and (fin['state'] != 0 or fin['sock'] == 'open'):
            viol.append((sig + ':not-idle-after-close', 'after the peer closed: Sta%d socket %s (%s)' % (fin['state'] + 1, fin['sock'], where)))
        if case['ending'] == 'chatter' and ok_model and m[2] and (fin['state'] != 0 or fin['sock'] == 'open'):
            viol.append((sig + ':artim-rearmed', 'the fault left the provider with ARTIM armed; 6 s later the peer sent another stray PDU, and 10.5 s after the '
                         'fault the provider is in Sta%d with the transport %s (%s)' % (fin['state'] + 1, fin['sock'], where)))
        if case['ending'] == 'silence' and fin['state'] in (1, 12):
            viol.append((sig + ':artim-not-honoured', 'still in Sta%d after 10.5 s of peer silence (%s)' % (fin['state'] + 1, where)))
        if fin['state'] == 0 and fin['sock'] == 'open':
            viol.append((sig + ':idle-open', 'idle with the transport open (%s)' % where))
        if fin['state'] == 0 and fin['timer']:
            viol.append((sig + ':artim-running-when-idle', 'the provider is idle (Sta1) and ARTIM is still running (%s)' % where))
        gone = [x for st in env.steps for x in st['inds'] if x[0] == 'A-ABORT']
        if len(gone) > 1:
            viol.append((sig + ':told-twice', 'the local user was told %d times that the association is gone: %r (%s)' % (len(gone), gone, where)))
        if indicated and not told_gone and fin['state'] == 0:
            viol.append((sig + ':user-not-told', 'association had been indicated, provider is idle again, but no abort/release indication was given (%s)' % where))
    key = (state, case['seed'], case['mut'], case['ending'], case.get('mpl'))
    return {'viol': viol, 'case': case if viol else None, 'key': key,
            'sample': {k: (v if k != 'bytes' else v.hex()) for k, v in case.items()} if case['mut'] in ('len@2=0', 'unknown-command-field') else None}


def finalize(rep, tier, seed):
    _, stats = model.automaton(False)
    rep.coverage['states'] = len(rep.nontrivial)
    rep.coverage['transitions'] = rep.evaluations
    rep.coverage['traces_validated_against_impl'] = rep.evaluations
    rep.coverage['tlc'] = stats
    rep.coverage['explanation'] = 'states = distinct (protocol state, seed, mutation, ending) fault cases; each is one execution of the real provider loop compared step by step with the TLC-dumped model'
