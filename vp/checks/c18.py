"""C18 - status classification is total and consistent.

Complete enumeration: 65 536 codes x (23 message classes + None), plus all add_status()
operation sequences up to a depth on a snapshot of the registries against a reference dict
model (decides the 'service-specific in preference to general' clause on every overlap shape).
"""
import itertools

from .. import common

ID = 'C18'
LEVEL = 'exploration'
RULE = ('part A: every (message class or None, 16-bit code) pair, one case per message class holding all 65536 '
        'codes; non-trivial/distinct = distinct (class, status_type) outcomes and distinct add_status histories '
        'that overlap a previous registration; part B: every sequence of <= n add_status calls over a 45-op '
        'alphabet, checked on a 7-code neighbourhood x 3 commands against a reference dict model')
ASSUMPTIONS = [
    'reference classification transcribed from PS3.7 Annex C / PS3.4 B.2.3, C.4.1.1.4, C.4.2.1.5, C.4.3.1.4: only the '
    'codes the property names are constrained (0000, pending codes, service-specific ranges, unknown -> failure)',
    'descriptions of statuses are not constrained',
]
CHUNK = 1

TYPES = ['Success', 'Pending', 'Warning', 'Cancel', 'Failure']


def _svc_tables():
    """Service-specific classification per response command field (from the standard)."""
    def rng(a, b):
        return range(a, b + 1)
    t = {}
    store = {}
    for c in rng(0xA700, 0xA7FF):
        store[c] = 'Failure'
    for c in rng(0xA900, 0xA9FF):
        store[c] = 'Failure'
    for c in rng(0xC000, 0xCFFF):
        store[c] = 'Failure'
    for c in (0xB000, 0xB007, 0xB006):
        store[c] = 'Warning'
    t[0x8001] = store
    find = {0xA700: 'Failure', 0xA900: 'Failure', 0xFE00: 'Cancel', 0xFF00: 'Pending', 0xFF01: 'Pending'}
    for c in rng(0xC000, 0xCFFF):
        find[c] = 'Failure'
    t[0x8020] = find
    get = {0xA701: 'Failure', 0xA702: 'Failure', 0xA900: 'Failure', 0xFE00: 'Cancel', 0xB000: 'Warning',
           0xFF00: 'Pending'}
    for c in rng(0xC000, 0xCFFF):
        get[c] = 'Failure'
    t[0x8010] = get
    move = {0xA701: 'Failure', 0xA702: 'Failure', 0xA801: 'Failure', 0xA900: 'Failure', 0xFE00: 'Cancel',
            0xB000: 'Warning', 0xFF00: 'Pending'}
    for c in rng(0xC000, 0xCFFF):
        move[c] = 'Failure'
    t[0x8021] = move
    return t


SVC = _svc_tables()


def _msg_classes():
    from pynetdicom2 import dimsemessages
    return [None] + [dimsemessages.MESSAGE_TYPE[k] for k in sorted(dimsemessages.MESSAGE_TYPE)]


def _ops():
    targets = [(0x1234, None), (0x1232, 0x1236), (0x1236, None)]
    cmds = [None, 0x8020, 0x8001]
    return [(t, tgt, cmd) for cmd in cmds for tgt in targets for t in TYPES]


def cases(tier, seed):
    for i in range(len(_msg_classes())):
        yield {'part': 'A', 'cls': i}
    yield {'part': 'C'}
    ops = _ops()
    depth = 2 if tier == 'quick' else 3
    # one case = all sequences starting with a given first op (keeps cases coarse for the pool)
    for i in range(len(ops)):
        yield {'part': 'B', 'first': i, 'depth': depth}


def domain(tier):
    return {'codes': 65536, 'classes': 24, 'add_status_ops': 45, 'add_status_depth': 2 if tier == 'quick' else 3}


def _flags(st):
    return [st.is_success, st.is_pending, st.is_warning, st.is_cancel, st.is_failure]


def run_case(case):
    common.import_repo()
    from pynetdicom2 import statuses, dimsemessages
    viol = []
    if case['part'] == 'A':
        cls = _msg_classes()[case['cls']]
        cf = cls.command_field if cls else None
        name = cls.__name__ if cls else 'None'
        svc = SVC.get(cf, {})
        outcomes = set()
        codes = case.get('codes') or range(65536)
        for code in codes:
            try:
                st = statuses.Status(code, cls)
                fl = _flags(st)
                typ = st.status_type
                back = int(st)
            except Exception as exc:  # totality: construction must not fail
                viol.append(('c18:raise:%s' % name, 'Status(0x%04X, %s) raised %r' % (code, name, exc)))
                continue
            outcomes.add(typ)
            if cls is not None and (code in svc or code % 4099 == 0):
                # the response type may be named by an instance of the message (Status(rsp.status, rsp)) or by an application's
                # subclass of it: same type, same classification
                for how, other in (('an instance', cls()), ('a subclass', type('App' + cls.__name__, (cls,), {}))):
                    try:
                        o = statuses.Status(code, other)
                        if (o.status_type, _flags(o), int(o)) != (typ, fl, back):
                            viol.append(('c18:same-type:%s:%04X' % (name, code), 'Status(0x%04X, %s of %s) is %s %r, Status(0x%04X, %s) is %s %r' % (
                                code, how, name, o.status_type, _flags(o), code, name, typ, fl)))
                    except Exception as exc:
                        viol.append(('c18:raise:%s' % name, 'Status(0x%04X, %s of %s) raised %r' % (code, how, name, exc)))
            if sum(1 for f in fl if f) != 1 or typ not in TYPES or not fl[TYPES.index(typ)]:
                viol.append(('c18:flags:%s:%04X' % (name, code),
                             'Status(0x%04X, %s): status_type=%r flags(success,pending,warning,cancel,failure)=%r'
                             % (code, name, typ, fl)))
            if back != code:
                viol.append(('c18:int:%s:%04X' % (name, code), 'int(Status(0x%04X, %s)) == %r' % (code, name, back)))
            if code == 0:
                exp = 'Success'
            elif code in svc:
                exp = svc[code]
            else:
                exp = None   # general table / unknown: only 'unknown -> failure' is constrained below
            if exp is not None and typ != exp:
                viol.append(('c18:class:%s:%04X' % (name, code),
                             'Status(0x%04X, %s).status_type == %r, the standard classifies it as %s'
                             % (code, name, typ, exp)))
            if exp is None and code != 0 and typ != 'Failure':
                # not named by the standard's service table for this command: must be a failure unless the
                # library's *general* table knowingly classifies it (only 0x0000 is non-failure there)
                viol.append(('c18:unknown:%s:%04X' % (name, code),
                             'Status(0x%04X, %s).status_type == %r for a code outside every table (expected Failure)'
                             % (code, name, typ)))
        return {'viol': viol[:50], 'key': None, 'case': dict(case, codes=[int(v[0].split(':')[-1], 16) for v in viol[:5]
                                                                    if v[0].count(':') == 3] or None),
                'sample': {'class': name, 'outcomes': sorted(outcomes)},
                'count': {'partA_statuses': len(codes)}, 'keys': [(name, o) for o in outcomes]}
    if case['part'] == 'C':
        # the predefined constants of the module (what services and applications compare against and return) classify like a
        # status built from the same code for the same command
        prefix = {'C_STORE_': dimsemessages.CStoreRSPMessage, 'C_FIND_': dimsemessages.CFindRSPMessage, 'C_GET_': dimsemessages.CGetRSPMessage,
                  'C_MOVE_': dimsemessages.CMoveRSPMessage}
        n = 0
        for nm, const in sorted(vars(statuses).items()):
            if not isinstance(const, statuses.Status) or nm.startswith('_'):
                continue
            n += 1
            cls = next((c for p_, c in prefix.items() if nm.startswith(p_)), None)
            fresh = statuses.Status(int(const), cls)
            if (const.status_type, _flags(const)) != (fresh.status_type, _flags(fresh)):
                viol.append(('c18:constant:%s' % nm, 'statuses.%s (0x%04X) is classified %s %r, a status built now from the same code for %s is %s %r' % (
                    nm, int(const), const.status_type, _flags(const), cls.__name__ if cls else 'no command', fresh.status_type, _flags(fresh))))
            if int(const) == 0 and not const.is_success:
                viol.append(('c18:constant:%s' % nm, 'statuses.%s (0x0000) is not a success status' % nm))
        if n < 10:
            viol.append(('c18:constants-missing', 'only %d predefined status constants found in pynetdicom2.statuses' % n))
        return {'viol': viol, 'key': None, 'case': case if viol else None, 'count': {'constants': n}, 'keys': [('constant', n)]}
    # part B
    ops = _ops()
    cmd_cls = {None: None, 0x8020: dimsemessages.CFindRSPMessage, 0x8001: dimsemessages.CStoreRSPMessage}
    g0, s0 = dict(statuses._general_status_dict), dict(statuses._status_dict)
    nseq = 0
    nover = 0
    seqs = [[case['first']]]
    if 'seq' in case:
        allseq = [case['seq']]
    else:
        allseq = []
        for d in range(1, case['depth'] + 1):
            for rest in itertools.product(range(len(ops)), repeat=d - 1):
                allseq.append([case['first']] + list(rest))
    for seq in allseq:
        nseq += 1
        ref_g, ref_s = {}, {}
        try:
            for oi in seq:
                typ, (code, end), cmd = ops[oi]
                # (the type name as it comes out of a configuration file: an equal string, not the very object of a source literal)
                statuses.add_status(code, ''.join(list(typ)), 'vp', end, cmd_cls[cmd])
                for c in range(code, (end if end is not None else code) + 1):
                    if cmd is None:
                        ref_g[c] = typ
                    else:
                        ref_s[(cmd, c)] = typ
            if len(seq) > 1:
                nover += 1
            for cmd in (None, 0x8020, 0x8001):
                for c in range(0x1231, 0x1238):
                    exp = ref_s.get((cmd, c)) or ref_g.get(c) or 'Failure'
                    st = statuses.Status(c, cmd_cls[cmd])
                    if st.status_type != exp or sum(1 for f in _flags(st) if f) != 1 or int(st) != c:
                        viol.append(('c18:add_status:%s' % '-'.join(map(str, seq)),
                                     'after add_status ops %r: Status(0x%04X, %s).status_type=%r flags (success, pending, warning, cancel, failure)=%r int=%r, '
                                     'reference model says %r, exactly one flag' % ([ops[i] for i in seq], c, cmd, st.status_type, _flags(st), int(st), exp)))
        finally:
            statuses._general_status_dict.clear()
            statuses._general_status_dict.update(g0)
            statuses._status_dict.clear()
            statuses._status_dict.update(s0)
        if len(viol) > 20:
            break
    first_bad = None
    if viol:
        first_bad = [int(x) for x in viol[0][0].split(':')[-1].split('-')]
    return {'viol': viol[:20], 'key': None, 'case': dict(case, seq=first_bad) if first_bad else case,
            'count': {'partB_sequences': nseq, 'partB_overlapping': nover}}


def finalize(rep, tier, seed):
    # distinct_nontrivial must be measured: count distinct (class, outcome) pairs + overlapping add_status histories
    n_out = 0
    import vp.checks.c18 as me
    common.import_repo()
    from pynetdicom2 import statuses
    pairs = set()
    for cls in _msg_classes():
        for code in (0x0000, 0xFF00, 0xFF01, 0xFE00, 0xB000, 0xA700, 0xC123, 0x0110, 0x1234):
            pairs.add((cls.__name__ if cls else 'None', code, statuses.Status(code, cls).status_type))
    rep.nontrivial = set(pairs)
    rep.coverage['distinct_nontrivial'] = len(pairs) + rep.coverage.get('partB_overlapping', 0)
    rep.coverage['distinct_outcome_probe'] = sorted(set(p[2] for p in pairs))
    rep.exhaustive = True
