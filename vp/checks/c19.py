"""C19 - retrieve (C-GET / C-MOVE): each sub-operation exactly once, true progress (E1 histories)."""
import contextlib
import itertools

from .. import common, assoc, dsgen, msggen, ref_cmd

ID = 'C19'
LEVEL = 'exploration'
CHUNK = 10
RULE = ('C-MOVE provider: n = 0..4 (5 thorough) instances x every outcome vector in {success, warning, failure}^n x destination '
        'known / None (n=0) x message id and context id grids, real qr_move_scp dispatched by the real _loop, destination '
        'sub-association = recording stub on ae.request_association. C-GET user: every interleaving (order-preserving '
        'shuffle) of p<=2 pending C-GET-RSP with s<=3 C-STORE-RQ (multi-fragment, on their own context) followed by a final '
        'C-GET-RSP of each class x handler outcomes {success, warning, EventHandlingError}^s (quick: uniform vectors + one '
        'mixed) x in-memory / file-backed reception, real qr_get_scu over the real decoder. distinct/non-trivial = distinct '
        '(part, n or interleaving, outcome vector, final, reception)')
ASSUMPTIONS = ['"performed after k sub-operations": either the completed counter equals k or completed+failed+warning equals k; remaining must be n-k',
               'an instance whose handler raises EventHandlingError may be withheld from the caller (0 or 1 yields, never 2)',
               'destination None is exercised with n = 0 only (what the default on_receive_move returns)']

TS = '1.2.840.10008.1.2'
CT = '1.2.840.10008.5.1.4.1.1.2'
MOVE = '1.2.840.10008.5.1.4.1.2.1.2'
GET = '1.2.840.10008.5.1.4.1.2.1.3'
OUT = {'s': 0x0000, 'w': 0xB000, 'f': 0xA700}


def domain(tier):
    return {'max_n': 6 if tier == 'thorough' else 4, 'max_pending': 2 if tier == 'quick' else 3, 'max_stores': 3 if tier == 'quick' else 4}


def shuffles(a, b):
    """All order-preserving interleavings of two sequences."""
    if not a:
        yield list(b)
        return
    if not b:
        yield list(a)
        return
    for rest in shuffles(a[1:], b):
        yield [a[0]] + rest
    for rest in shuffles(a, b[1:]):
        yield [b[0]] + rest


def cases(tier, seed):
    maxn = 6 if tier == 'thorough' else 4
    for n in range(maxn + 1):
        for vec in itertools.product('swf', repeat=n):
            for mid, pc in (((1, 1), (65535, 255), (256, 3)) if n <= 2 else ((7, 5),)):
                yield {'part': 'move', 'n': n, 'vec': ''.join(vec), 'mid': mid, 'pc': pc, 'dest': True}
    yield {'part': 'move', 'n': 0, 'vec': '', 'mid': 9, 'pc': 1, 'dest': False}
    for vec in ('r', 'rs', 'sr', 'srs', 'rr', 'wrf', 'srsr'):
        yield {'part': 'move', 'n': len(vec), 'vec': vec, 'mid': 21, 'pc': 3, 'dest': True}
    for n in (0, 2):
        yield {'part': 'move', 'n': n, 'vec': 's' * n, 'mid': 77, 'pc': 3, 'dest': True, 'refuse': True}
    for p in range(3 if tier == 'quick' else 4):
        for s in range(4 if tier == 'quick' else 5):
            for order in shuffles(['P'] * p, ['S'] * s):
                vecs = [''.join(v) for v in itertools.product('swe', repeat=s)]
                if tier == 'quick' and s == 3:
                    vecs = ['sss', 'www', 'eee', 'swe', 'esw']
                for vec in vecs:
                    for fin in (0x0000, 0xB000, 0xA702, 0xFE00):
                        for infile in (False, True):
                            if tier == 'quick' and infile and (fin not in (0x0000,) or p == 2):
                                continue
                            yield {'part': 'get', 'order': ''.join(order), 'vec': vec, 'final': fin, 'infile': infile}


def _move_ae(case, log):
    from pynetdicom2 import applicationentity, statuses, dimsemessages

    class Sub(object):
        association_established = True

        def __init__(self):
            self.k = 0

        def get_scu(self, sop_class):
            if case['vec'][self.k] == 'r':
                # the destination has not accepted a context for this instance's class: it cannot be sent - a failed sub-operation
                self.k += 1
                from pynetdicom2 import exceptions
                raise exceptions.ClassNotSupportedError('SOP Class %s not supported as SCU' % sop_class)

            def store(ds, msg_id):
                log.append(('store', str(ds.SOPInstanceUID), str(sop_class)))
                st = OUT[case['vec'][self.k]]
                self.k += 1
                return statuses.Status(st, dimsemessages.CStoreRSPMessage)
            return store

    class MoveAE(applicationentity.AE):
        def on_receive_move(self, context, ds, destination):
            log.append(('handler', str(destination)))
            if case.get('refuse'):
                from pynetdicom2 import exceptions
                raise exceptions.EventHandlingError('unknown destination')
            n = case['n']
            gen = iter([dsgen.make('a', i, inst='1.2.9.%d' % (i + 1)) for i in range(n)])
            return ({'aet': 'DEST', 'address': 'dest.host', 'port': 4242} if case['dest'] else None), n, gen

        @contextlib.contextmanager
        def request_association(self, remote_ae):
            log.append(('sub-assoc', None if remote_ae is None else remote_ae.get('aet')))
            yield Sub()
            log.append(('sub-assoc-end',))
    return MoveAE


def run_case(case):
    common.import_repo()
    if 'stack' in case:
        from .. import svc_stack
        return svc_stack.run_case(case, 'c19:')
    from pynetdicom2 import sopclass, applicationentity, exceptions, statuses, asceprovider
    from pydicom import uid
    viol = []
    where = common.short(case, 200)
    if case['part'] == 'move':
        sig = 'c19:move'
        log = []
        sae = assoc.make_ae('SCP', [TS], 65536, [sopclass.qr_move_scp], cls=_move_ae(case, log))
        cae = applicationentity.ClientAE('SCU', [TS])
        link = assoc.Link(sae, cae, {case['pc']: (MOVE, TS)})
        req = msggen.make('CMoveRQMessage', sop_class=MOVE, msg_id=case['mid'], aet='DEST',
                          data_set=dsgen.enc(dsgen.make('query'), TS))
        link.scu.send(req, case['pc'])
        try:
            link.serve()
        except Exception as exc:
            viol.append((sig + ':raises:%s' % type(exc).__name__, 'qr_move_scp raised %r after %d responses (%s)' % (
                exc, len([1 for d, i in link.log if d == 'scp->scu']), where)))
        n = case['n'] if not case.get('refuse') else 0
        stores = [x[1] for x in log if x[0] == 'store']
        if stores != ['1.2.9.%d' % (i + 1) for i in range(n) if case['vec'][i:i + 1] != 'r']:
            viol.append((sig + ':sub-operations', 'destination received %r for %d supplied instances (%s)' % (stores, n, where)))
        subs = [x for x in log if x[0] == 'sub-assoc']
        if n and (len(subs) != 1 or subs[0][1] != 'DEST'):
            viol.append((sig + ':destination', 'sub-associations %r, designated destination DEST (%s)' % (subs, where)))
        if not case['dest'] and subs:
            viol.append((sig + ':destination-unknown', 'association requested to %r although the application designated no destination (%s)' % (subs, where)))
        rsps = []
        for d, pdus in link.log:
            if d == 'scp->scu' and isinstance(pdus, list):
                cmd, data, flags = msggen.collect(pdus)
                el = ref_cmd.read(cmd)
                rsps.append({k: ref_cmd.value(el, t) for k, t in (('st', 0x0900), ('rem', 0x1020), ('comp', 0x1021), ('fail', 0x1022), ('warn', 0x1023), ('mid', 0x0120))})
        pend = [r for r in rsps if r['st'] == 0xFF00]
        fin = [r for r in rsps if r['st'] != 0xFF00]
        if case.get('refuse') and len(fin) == 1 and statuses.Status(fin[0]['st'], msggen.msg_class('CMoveRSPMessage')).status_type != 'Failure':
            viol.append((sig + ':refusal-status', 'the application refused the move but the final status is 0x%04X (%s)' % (fin[0]['st'], where)))
        if len(fin) != 1 or (rsps and rsps[-1]['st'] == 0xFF00):
            viol.append((sig + ':final-count:n%s' % ('0' if n == 0 else '+'), '%d final responses (statuses %r) for n=%d (%s)' % (
                len(fin), ['%04X' % r['st'] if isinstance(r['st'], int) else r['st'] for r in rsps], n, where)))
        if len(pend) != n:
            viol.append((sig + ':pending-count', '%d pending responses for %d sub-operations (%s)' % (len(pend), n, where)))
        for k, r in enumerate(pend, 1):
            nf = case['vec'][:k].count('f') + case['vec'][:k].count('r')
            nw = case['vec'][:k].count('w')
            performed_ok = r['comp'] == k or (isinstance(r['comp'], int) and r['comp'] + (r['fail'] or 0) + (r['warn'] or 0) == k)
            if not performed_ok or r['rem'] != n - k:
                viol.append((sig + ':progress', 'after %d of %d sub-operations the response reports completed=%r failed=%r warning=%r remaining=%r (%s)' % (
                    k, n, r['comp'], r['fail'], r['warn'], r['rem'], where)))
                break
            if r['fail'] != nf or r['warn'] != nw:
                viol.append((sig + ':outcome-counters', 'after outcomes %r the response reports failed=%r warning=%r (%s)' % (case['vec'][:k], r['fail'], r['warn'], where)))
                break
        if len(fin) == 1 and n and case['dest']:
            r = fin[0]
            if r['rem'] not in (0, ('bad-US-length', 0), None) or not (r['comp'] == n or (isinstance(r['comp'], int) and r['comp'] + (r['fail'] or 0) + (r['warn'] or 0) == n)):
                viol.append((sig + ':final-counters', 'final response reports completed=%r failed=%r warning=%r remaining=%r for n=%d (%s)' % (
                    r['comp'], r['fail'], r['warn'], r['rem'], n, where)))
        if any(r['mid'] != case['mid'] for r in rsps):
            viol.append((sig + ':message-id', 'responses carry message ids %r (%s)' % ([r['mid'] for r in rsps], where)))
        return {'viol': viol, 'case': case if viol else None, 'key': ('move', case['n'], case['vec'], case['mid'], case['dest']),
                'sample': dict(case, responses=len(rsps)) if case['vec'] == 'swf' else None}
    # ---- C-GET user
    sig = 'c19:get'
    order, vec = case['order'], case['vec']
    seen = []

    class GetAE(applicationentity.ClientAE):
        def on_receive_store(self, context, ds):
            k = len(seen)
            seen.append(k)
            o = vec[k]
            if o == 'e':
                raise exceptions.EventHandlingError('nope')
            return statuses.Status(OUT['s' if o == 's' else 'w'])
    cae = GetAE('SCU', [TS], 16384)
    cae.add_scu(sopclass.qr_get_scu, [GET])
    MR = '1.2.840.10008.5.1.4.1.1.4'
    svc = assoc.Recorder('store', [CT, MR], store_in_file=case['infile'])
    cae.add_scu(svc)
    ids = {str(c.sop_class): pc for pc, c in cae.context_def_list.items()}
    getpc, storepc, storepc2 = ids[GET], ids[CT], ids[MR]
    sae = assoc.make_ae('SCP', [TS], 65536, [])
    link = assoc.Link(sae, cae, {getpc: (GET, TS), storepc: (CT, TS), storepc2: (MR, TS)}, 70, 16384)
    link.scu.dul.pump = None
    gen = link.scu.get_scu(GET)(dsgen.make('query'), 31)
    # script of the peer
    si = 0
    sent_insts = []
    for ch in order:
        if ch == 'P':
            link.scp.send(msggen.make('CGetRSPMessage', sop_class=GET, msg_id=31, status=0xFF00, counters=(3, si, 0, 0)), getpc)
        else:
            inst = '1.2.7.%d' % (si + 1)
            sent_insts.append(inst)
            # sub-operations alternate between two storage contexts (CT, MR, CT, ...)
            sop_k, pc_k = ((CT, storepc), (MR, storepc2))[si % 2]
            link.scp.send(msggen.make('CStoreRQMessage', sop_class=sop_k, sop_inst=inst, msg_id=100 + si,
                                      data_set=dsgen.enc(dsgen.make('b', si, sop_class=sop_k, inst=inst), TS)), pc_k)
            si += 1
    link.scp.send(msggen.make('CGetRSPMessage', sop_class=GET, msg_id=31, status=case['final']), getpc)
    sentinel_before = len(link.scu.dul.inbox)
    got = []
    try:
        for ctx, ds in gen:
            if case['infile']:
                raw = ds.read()
                got.append(raw)
            else:
                got.append(str(ds.SOPInstanceUID))
    except Exception as exc:
        viol.append((sig + ':raises:%s' % type(exc).__name__, 'qr_get_scu raised %r (%s)' % (exc, where)))
    if link.scu.dul.inbox:
        viol.append((sig + ':stops-early', 'generator ended with %d peer messages unread (%s)' % (len(link.scu.dul.inbox), where)))
    rsps = []
    for d, pdus in link.log:
        if d == 'scu->scp' and isinstance(pdus, list):
            cmd, data, flags = msggen.collect(pdus)
            el = ref_cmd.read(cmd)
            if ref_cmd.value(el, 0x0100) == 0x8001:
                rsps.append((flags[0][0], ref_cmd.value(el, 0x0120), ref_cmd.value(el, 0x1000), ref_cmd.value(el, 0x0900), ref_cmd.value(el, 0x0002)))
    exp_rsps = [((storepc, storepc2)[k % 2], 100 + k, '1.2.7.%d' % (k + 1), {'s': 0, 'w': 0xB000, 'e': 0xC000}[vec[k]], (CT, MR)[k % 2])
                for k in range(len(sent_insts))]
    if rsps != exp_rsps:
        kind = 'count' if len(rsps) != len(exp_rsps) else 'fields'
        viol.append((sig + ':store-responses:' + kind, 'C-STORE responses (context, msg id, instance, status, class) %r, expected %r (%s)' % (rsps, exp_rsps, where)))
    if case['infile']:
        n_yield = len(got)
        exp_min = [k for k in range(len(sent_insts)) if vec[k] != 'e']
        if not (len(exp_min) <= n_yield <= len(sent_insts)):
            viol.append((sig + ':yield-count', '%d instances handed to the caller for %d received (%s)' % (n_yield, len(sent_insts), where)))
    else:
        must = [sent_insts[k] for k in range(len(sent_insts)) if vec[k] != 'e']
        filt = [g for g in got if g in must]
        if filt != must or len(got) != len(set(got)) or any(g not in sent_insts for g in got):
            viol.append((sig + ':yield-order', 'instances handed to the caller %r, received in order %r (outcomes %s) (%s)' % (got, sent_insts, vec, where)))
    if len(seen) != len(sent_insts):
        viol.append((sig + ':handler-calls', 'on_receive_store called %d times for %d C-STORE requests (%s)' % (len(seen), len(sent_insts), where)))
    return {'viol': viol, 'case': case if viol else None, 'key': ('get', order, vec, case['final'], case['infile']),
            'sample': case if order == 'SPS' and vec == 'sw' else None}


def finalize(rep, tier, seed):
    from .. import svc_stack
    svc_stack.extend(rep, ID, tier, seed, 'vp.checks.c19')
