"""C16 - C-FIND returns exactly the matches the SCP produced, in order, then stops (E1 histories)."""
import itertools

from .. import common, assoc, dsgen, msggen, stubs

ID = 'C16'
LEVEL = 'exploration'
CHUNK = 10
RULE = ('every history of handler results of length 0..4 (5 thorough) over {(ds_a, FF00), (ds_b, FF01), (ds_big, FF00)} x 2 '
        'query data sets x 3 transfer syntaxes x max PDU {128, 16384} x entry points {qr_find_scp/scu, '
        'modality_work_list_scp/scu, pynetdicom2.c_find wrapper}: the real SCP service runs on a real Association over a '
        'stub provider, its P-DATA PDUs go through encode/decode and the real DIMSEDecoder into the real SCU generator. '
        'Plus the SCU alone against every scripted response history of 0..4 pending responses followed by each final '
        'class. distinct/non-trivial = distinct (entry point, history, ts, max PDU)')
ASSUMPTIONS = ['part 1: both sides run in one thread over stub providers; part 2 (vp/svc_stack.py): the same services with real provider threads, schedules enumerated',
               'data sets are compared by their pydicom re-encoding in the negotiated transfer syntax']

TS = ['1.2.840.10008.1.2', '1.2.840.10008.1.2.1', '1.2.840.10008.1.2.2']
PATIENT_FIND = '1.2.840.10008.5.1.4.1.2.1.1'
MWL = '1.2.840.10008.5.1.4.31'
ALPHA = [('a', 0xFF00), ('b', 0xFF01), ('big', 0xFF00), None, ('empty', 0xFF00)]    # [3] = handler error marker; [4] = a match without any element
FINALS = [0x0000, 0xC001, 0xA700, 0xFE00, 0x1234, 0xB000, 0x0122]


def domain(tier):
    return {'alphabet': ALPHA, 'max_history': 6 if tier == 'thorough' else 4, 'finals': FINALS}


def cases(tier, seed):
    depth = 6 if tier == 'thorough' else 4
    hists = [h for n in range(depth + 1) for h in itertools.product(range(3), repeat=n)]
    # letter 3 = the handler's generator raises EventHandlingError at that point (only as last letter)
    hists += [h + (3,) for n in range(depth) for h in itertools.product(range(3), repeat=n)]
    # matches that carry no element at all (an empty identifier) are still matches: more may follow
    hists += [(4,), (4, 0), (0, 4, 1), (4, 4, 2), (1, 4)]
    for entry in ('qr', 'mwl', 'c_find'):
        for h in hists:
            for ti in range(3):
                for ml in (128, 16384):
                    if entry != 'qr' and (ti + ml + len(h)) % 2 and tier != 'thorough':
                        continue    # secondary entry points: half of the grid
                    yield {'entry': entry, 'hist': list(h), 'ts': ti, 'maxlen': ml, 'query': 'query' if len(h) % 2 else 'query2'}
    # handlers written as plain functions (the documented contract is "returns an iterable"): failing at once, returning a list
    for entry in ('qr', 'mwl', 'c_find'):
        for h in ((3,), (0, 1), ()):
            yield {'entry': entry, 'hist': list(h), 'ts': 0, 'maxlen': 16384, 'query': 'query', 'eager': True}
    # queries without a level / without any element reach the handler as they are, through every entry point
    for entry in ('qr', 'mwl', 'c_find'):
        for q in ('query-nolevel', 'empty'):
            yield {'entry': entry, 'hist': [0, 1], 'ts': 1, 'maxlen': 16384, 'query': q}
    for npend in range(depth + 1):
        for pend in itertools.product((0xFF00, 0xFF01), repeat=npend):
            for fin in FINALS:
                yield {'entry': 'scu-alone', 'pending': list(pend), 'final': fin, 'ts': len(pend) % 3, 'maxlen': 16384}


def _server_ae(ts, script, seen, eager=False):
    from pynetdicom2 import applicationentity, sopclass, exceptions

    class FindAE(applicationentity.AE):
        def on_receive_find(self, context, ds):
            seen.append((context, ds))
            if eager:
                # a handler that is a plain function: it fails before it has anything to return, or returns a list
                if 'EHE' in script:
                    raise exceptions.EventHandlingError('handler failed before producing matches')
                return list(script)

            def gen():
                for item in script:
                    if item == 'EHE':
                        raise exceptions.EventHandlingError('handler failed while producing matches')
                    yield item
            return gen()
    return assoc.make_ae('SCP', [ts], 65536, [sopclass.qr_find_scp, sopclass.modality_work_list_scp], cls=FindAE)


def run_case(case):
    common.import_repo()
    if 'stack' in case:
        from .. import svc_stack
        return svc_stack.run_case(case, 'c16:')
    import pynetdicom2
    from pynetdicom2 import applicationentity, sopclass, asceprovider, statuses
    ts = TS[case['ts']]
    viol = []
    entry = case['entry']
    sig = 'c16:%s' % entry
    where = common.short(case, 200)
    if entry == 'scu-alone':
        cae = applicationentity.ClientAE('SCU', [ts]).add_scu(sopclass.qr_find_scu)
        with stubs.patched_dul():
            scu = asceprovider.AssociationRequester(cae, 16384, {'aet': 'X', 'address': 'h', 'port': 1})
        from pydicom import uid
        scu.sop_classes_as_scu[uid.UID(PATIENT_FIND)] = (1, uid.UID(ts))
        script = []
        for i, st in enumerate(case['pending']):
            script.append((dsgen.enc(dsgen.make('a', i), ts), st))
        script.append((None, case['final']))
        for raw, st in script:
            scu.dul.inbox.append((msggen.make('CFindRSPMessage', sop_class=PATIENT_FIND, status=st, data_set=raw), 1))
        sentinel = (msggen.make('CFindRSPMessage', sop_class=PATIENT_FIND, status=0), 1)
        scu.dul.inbox.append(sentinel)
        try:
            got = list(scu.get_scu(PATIENT_FIND)(dsgen.make('query'), 7))
        except Exception as exc:
            return {'viol': [(sig + ':raises', 'SCU raised %r (%s)' % (exc, where))], 'case': case, 'key': None}
        exp = [(raw, st) for raw, st in script]
        gotn = [(dsgen.enc(d, ts) if d is not None else None, int(s)) for d, s in got]
        if gotn != exp:
            kind = 'stops-early' if len(gotn) < len(exp) else 'over-reads' if len(gotn) > len(exp) else 'content'
            viol.append((sig + ':' + kind, 'SCU yielded %d items with statuses %r; scripted %r (%s)' % (
                len(gotn), ['%04X' % s for _, s in gotn], ['%04X' % s for _, s in exp], where)))
        if list(scu.dul.inbox) != [sentinel] and not viol:
            viol.append((sig + ':queue', '%d messages left/consumed beyond the final response (%s)' % (len(scu.dul.inbox), where)))
        return {'viol': viol, 'case': case if viol else None, 'key': (entry, tuple(case['pending']), case['final'])}
    fails = bool(case['hist']) and case['hist'][-1] == 3
    hist = case['hist'][:-1] if fails else case['hist']
    script = [(dsgen.make(ALPHA[i][0], n), statuses.Status(ALPHA[i][1], None)) for n, i in enumerate(hist)]
    script_int = [(dsgen.make(ALPHA[i][0], n), ALPHA[i][1]) for n, i in enumerate(hist)]
    if fails:
        script.append('EHE')
    seen = []
    sae = _server_ae(ts, script if (len(case['hist']) % 2 or fails) else script_int, seen, eager=bool(case.get('eager')))
    if case['query'] == 'query-nolevel':
        query = dsgen.make('query')
        del query.QueryRetrieveLevel
    else:
        query = dsgen.make(case['query'])
    query_before = dsgen.enc(query, ts)
    sop = MWL if entry == 'mwl' else PATIENT_FIND
    try:
        if entry == 'c_find':
            holder = {}
            orig = asceprovider.AssociationRequester.request

            def fake_request(self):
                lk = assoc.Link.__new__(assoc.Link)
                lk.scp = assoc.make_acceptor(sae, case['maxlen'])
                lk.scu = self
                lk.log, lk.serving = [], False
                self.max_pdu_length = case['maxlen']
                lk.wire({1: (sop, ts)})
                holder['link'] = lk
            asceprovider.AssociationRequester.request = fake_request
            try:
                with stubs.patched_dul():
                    got = list(pynetdicom2.c_find({'aet': 'SCP', 'address': 'h', 'port': 1}, 'SCU', query, root=sop))
            finally:
                asceprovider.AssociationRequester.request = orig
            link = holder['link']
        else:
            cae = applicationentity.ClientAE('SCU', [ts]).add_scu(sopclass.qr_find_scu).add_scu(sopclass.modality_work_list_scu)
            link = assoc.Link(sae, cae, {1: (PATIENT_FIND, ts), 3: (MWL, ts)}, case['maxlen'], case['maxlen'])
            got = list(link.scu.get_scu(sop)(query, 11))
    except Exception as exc:
        import traceback
        return {'viol': [(sig + ':raises', 'exchange raised %r (%s) %s' % (exc, where, traceback.format_exc()[-300:]))], 'case': case, 'key': None}
    exp = [(dsgen.enc(d, ts) or None, int(s)) for d, s in script_int]
    gotn = [((dsgen.enc(d, ts) or None) if d is not None else None, int(s), s.is_pending) for d, s in got]
    body, tail = gotn[:len(exp)], gotn[len(exp):]
    if [(d, s) for d, s, _ in body] != exp:
        viol.append((sig + ':matches', 'SCU received %r, handler produced %r (%s)' % (
            [('%d bytes' % len(d) if d else None, '%04X' % s) for d, s, _ in body], [('%d bytes' % len(d) if d else None, '%04X' % s) for d, s in exp], where)))
    elif not all(p for _, _, p in body):
        viol.append((sig + ':pending-flag', 'a match was not classified pending (%s)' % where))
    if fails and len(tail) == 1 and not got[-1][1].is_failure:
        viol.append((sig + ':final-after-handler-error', 'handler raised EventHandlingError but the final status is %s (%s)' % (got[-1][1], where)))
    if len(tail) != 1 or tail[0][2] or tail[0][0] is not None:
        viol.append((sig + ':final', 'after the matches the SCU yielded %r (expected exactly one non-pending response without data set) (%s)' % (
            [(bool(d), '%04X' % s, p) for d, s, p in tail], where)))
    if dsgen.enc(query, ts) != query_before:
        viol.append((sig + ':query-modified', "the caller's query data set was changed by the call (%s)" % where))
    if len(seen) != 1 or dsgen.enc(seen[0][1], ts) != query_before:
        viol.append((sig + ':query', 'handler saw %d queries / a different query data set (%s)' % (len(seen), where)))
    if link.scu.dul.inbox and [x for x in link.scu.dul.inbox if isinstance(x, tuple)]:
        viol.append((sig + ':queue', '%d DIMSE messages left unread (%s)' % (len(link.scu.dul.inbox), where)))
    nfrag = sum(len(i) for d, i in link.log if d == 'scp->scu' and isinstance(i, list))
    return {'viol': viol, 'case': case if viol else None, 'key': (entry, tuple(case['hist']), case['ts'], case['maxlen'], case['query']),
            'count': {'response_fragments': nfrag},
            'sample': dict(case, fragments=nfrag) if case['hist'] == [0, 2, 1] and case['maxlen'] == 128 else None}


def finalize(rep, tier, seed):
    from .. import svc_stack
    svc_stack.extend(rep, ID, tier, seed, 'vp.checks.c16')
