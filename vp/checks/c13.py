"""C13 - every association ending terminates the provider and releases the connection.

Part 1 (engine E2, this file): fault enumeration on the real provider loop - peer disconnect after every
byte prefix of every conversation and at every loop head, peer silence wherever ARTIM is armed, stop
request at every quiescent point.  Part 2 (engine E3, vp/checks/c13_stack.py when present): the same
endings driven through the whole stack under the schedule explorer."""
import itertools

from .. import common, e2
from . import c03

ID = 'C13'
LEVEL = 'model_checking'
CHUNK = 100

RULE = ('scenario corpus = the 23 conversations of C03 (both roles: echo, multi-fragment store, release from either side, abort from '
        'either side incl. local aborts, reject, release collision, unknown PDU, RJ, AC+abort, PDUs followed by an immediate close) x '
        '{peer disconnect after every byte prefix of the peer\'s stream; peer disconnect delivered at every non-quiescent loop head; '
        'connection reset; send failing on a dead connection; peer silence (10.5 s in three advances) at every quiescent point, judged '
        'against where the TLC-checked protocol model arms ARTIM; the same silence while another association of the same process is set '
        'up and released in between; the peer chattering instead (stray PDUs every 4 s for 10.5 s) where ARTIM is armed; a local primitive that cannot be encoded '
        '(the loop may end with the error, but stopped: exit event set, transport released, user told); stop request (kill flag) and stop() at every quiescent point}. Oracle: run() returns, no exception, '
        'no hang, no blocking recv; after a disconnect or ARTIM expiry the provider is idle (Sta1) with the transport closed and the timer '
        'stopped; an abort indication was given iff an association had been indicated and the local user had not ended it itself; the '
        'loop-exited event is set whenever run() ends. Part 2 (coverage.part2_whole_stack): eleven endings through the whole stack under '
        'the schedule explorer. distinct/non-trivial = distinct (conversation, fault kind, fault point)')
ASSUMPTIONS = ['virtual clock; ARTIM = 10 s as configured by the provider', 'in states without ARTIM peer silence is not bounded by the '
               'provider (the upper layer\'s receive timeout bounds it: part 2)']


_DELTA = None


def _model_armed(role, hist):
    """Walk the TLC-dumped protocol machine along a history of concrete events; True iff ARTIM is armed at the end
    (None if the walk leaves the modelled behaviour)."""
    global _DELTA
    from .. import model
    from . import c12
    if _DELTA is None:
        _DELTA, _ = model.automaton(False)
    m = (1, role, False, 'none')
    if role == 'ac':
        m = _DELTA[m]['Evt5'][1]
    for ev in hist:
        if ev[0] == 'bytes':
            cands = c12._classify(ev[1])
            mev = cands[0]
        elif ev[0] == 'user':
            mev = {'assoc_rq': 'Evt1', 'accept': 'Evt7', 'reject': 'Evt8', 'pdata': 'Evt9', 'release_rq': 'Evt11', 'release_rp': 'Evt14',
                   'abort': 'Evt15'}[ev[1][0]]
        elif ev[0] == 'close':
            mev = 'Evt17'
        else:
            return None
        row = _DELTA.get(m, {})
        if mev not in row:
            if ev[0] == 'bytes' and m[3] != 'open':
                continue
            return None
        m = row[mev][1]
        if mev == 'Evt1':
            m = _DELTA[m]['Evt2'][1]
    return m[2]


def flat(name):
    """-> role, list of ('bytes', pdu, round) / ('user', spec, round) / ('close', round) in canonical order"""
    role, rounds = c03.conv()[name]
    out = []
    for ri, (burst, reactions) in enumerate(rounds):
        for p in burst:
            out.append(('close', None, ri) if p == 'CLOSE' else ('bytes', p, ri))
        for r in reactions:
            out.append(('user', r[1], ri))
    return role, out


def cases(tier, seed):
    for name in c03.conv():
        role, items = flat(name)
        total = sum(len(p) for k, p, _ in items if k == 'bytes')
        for k in range(0, total + 1):
            yield {'conv': name, 'fault': 'disconnect-after-prefix', 'at': k}
        for i in range(len(items) + 1):
            yield {'conv': name, 'fault': 'stop-flag', 'at': i}
            for d in (1, 2, 3):
                # ... and at the next loop heads that are not quiescent (e.g. before the connection indication has been handled)
                yield {'conv': name, 'fault': 'stop-flag', 'at': i, 'dev': d}
            yield {'conv': name, 'fault': 'stop-call', 'at': i}
            yield {'conv': name, 'fault': 'silence', 'at': i}
            for d in range(1, 8):
                yield {'conv': name, 'fault': 'disconnect-at-loop-head', 'at': i, 'dev': d}
            yield {'conv': name, 'fault': 'reset', 'at': i}
            yield {'conv': name, 'fault': 'send-fails', 'at': i}
            yield {'conv': name, 'fault': 'silence-while-other-association-runs', 'at': i}
            yield {'conv': name, 'fault': 'local-error', 'at': i}
            if i < len(items) and items[i][0] == 'bytes':
                for cut in (1, 6, len(items[i][1]) - 1):
                    if 0 < cut < len(items[i][1]):
                        yield {'conv': name, 'fault': 'silence-after-partial-pdu', 'at': i, 'cut': cut}
                # ... where what has arrived is exactly what one read asks for (or twice that): a full read says nothing about more
                # being on its way
                for mpl, cut in ((64, 64), (32, 64), (7, 7)):
                    if cut < len(items[i][1]):
                        yield {'conv': name, 'fault': 'silence-after-partial-pdu', 'at': i, 'cut': cut, 'mpl': mpl}
            yield {'conv': name, 'fault': 'chatter', 'at': i}
        # the operating system reports an error from close() (armed at the start of the conversation and before its last step: the
        # provider closes once): the connection is released all the same and the provider has to end up idle
        for i in sorted({0, max(len(items) - 1, 0)}):
            yield {'conv': name, 'fault': 'close-reports-error', 'at': i}


def domain(tier):
    return {'conversations': sorted(c03.conv())}


def run_case(case):
    common.import_repo()
    if 'scenario' in case:
        from . import c13_stack
        return c13_stack.run_case(case)
    name, fault, at = case['conv'], case['fault'], case['at']
    role, items = flat(name)
    hist = []
    local_ended = False
    sig = 'c13:%s' % fault
    where = common.short(case, 200)
    dev = None
    if fault == 'disconnect-after-prefix':
        left = at
        cut_round = None
        for k, p, ri in items:
            if cut_round is not None and ri >= cut_round:
                break
            if k == 'bytes':
                if left >= len(p):
                    hist.append(('bytes', p))
                    left -= len(p)
                else:
                    if left:
                        hist.append(('bytes', p[:left]))
                    cut_round = ri
                    left = 0
            elif k == 'user':
                hist.append(('user', p))
                if p[0] in ('release_rp', 'abort', 'reject'):
                    local_ended = True
            else:
                break
        if cut_round is None and left == 0 and at == sum(len(p) for k, p, _ in items if k == 'bytes'):
            # whole stream delivered; reactions of the last round included above
            pass
        hist.append(('close',))
    else:
        for k, p, ri in items[:at]:
            if k == 'bytes':
                hist.append(('bytes', p))
            elif k == 'user':
                hist.append(('user', p))
                if p[0] in ('release_rp', 'abort', 'reject'):
                    local_ended = True
            else:
                hist.append(('close',))
        if fault == 'stop-flag':
            hist.append(('kill',))
        elif fault == 'stop-call':
            hist.append(('stop',))
        elif fault == 'silence':
            hist += [('tick', 4.0), ('tick', 4.0), ('tick', 2.5)]
        elif fault == 'silence-while-other-association-runs':
            other = [('bytes', e2.std_rq()), ('user', ('accept',)), ('bytes', e2.pdata(1, 3, e2.echo_cmd())), ('bytes', e2.std_release()),
                     ('user', ('release_rp',)), ('close',)]
            hist += [('tick', 4.0), ('other', 'ac', other), ('tick', 4.0), ('tick', 2.5)]
        elif fault == 'reset':
            hist.append(('reset',))
        elif fault == 'silence-after-partial-pdu':
            # the peer sends the beginning of its next PDU and then nothing: bytes of an incomplete PDU are not a PDU,
            # where ARTIM is armed it must still expire
            hist += [('bytes', items[at][1][:case['cut']]), ('tick', 4.0), ('tick', 4.0), ('tick', 2.5)]
        elif fault == 'chatter':
            # where ARTIM is armed the peer does not go silent but keeps sending association requests and junk, more often
            # than ARTIM: from the first of them on (at the latest) the provider is in Sta13, where nothing restarts the timer
            hist += [('tick', 1.0), ('bytes', e2.unknown_pdu()), ('tick', 4.0), ('bytes', e2.std_rq()), ('tick', 4.0), ('bytes', e2.unknown_pdu()),
                     ('tick', 2.5)]
        elif fault == 'close-reports-error':
            hist.append(('close-error',))
            for k, p, ri in items[at:]:
                hist.append((k, p) if k in ('bytes', 'user') else ('close',))
            hist += [('tick', 4.0), ('tick', 4.0), ('tick', 2.5)]
        elif fault == 'local-error':
            # the local user hands over a primitive that cannot be encoded (abort reason 300): whatever the loop does with the
            # error, the provider must end up stopped - exit event set (kill() returns), transport released
            hist.append(('user', ('abort', 0, 300)))
        elif fault == 'send-fails':
            # the connection died unnoticed; the local user's next primitive makes the provider write to it
            nxt = [p for k, p, ri in items[at:] if k == 'user'][:1]
            hist += [('gone',), ('user', nxt[0] if nxt else ('abort', 0, 0)), ('reset',)]
        else:
            hist.append(('close',))
            dev = {case['dev']: True}
        if fault == 'stop-flag' and case.get('dev'):
            # loop heads are counted over the whole execution: find the first non-quiescent head after the prefix by a dry run
            dry = e2.Env(role, hist[:-1], budget=3000).run()
            dev = {dry.nonquiescent_heads + case['dev'] - 1 if hist[:-1] else case['dev']: True}
    guard = (lambda pos: hist[pos][0] in ('close', 'kill')) if dev else None
    env = e2.Env(role, hist, deviations=dev, dev_guard=guard, budget=3000, **({'max_pdu_length': case['mpl']} if case.get('mpl') else {})).run()
    fin = env.final
    viol = []
    if fault == 'local-error':
        if fin['status'] == 'raised':
            if not fin['thread_flag']:
                viol.append((sig + ':exit-event-not-set', 'the loop ended with %s but the loop-exited event is not set: kill() / Association.kill() would '
                             'wait forever (%s)' % (fin['exc'], where)))
            if fin['sock'] == 'open':
                viol.append((sig + ':transport-left-open', 'the loop ended with %s and left the transport open (%s)' % (fin['exc'], where)))
            inds = [x for st in env.steps for x in st['inds']]
            if any(x[0] in ('A-ASSOCIATE-RQ', 'A-ASSOCIATE-AC') for x in inds) and not any(x[0] in ('A-ABORT', 'A-RELEASE-RP') for x in inds):
                viol.append((sig + ':user-not-told', 'the loop ended with %s; an association had been indicated, no abort indication followed (%s)' % (fin['exc'], where)))
            return {'viol': viol, 'case': case if viol else None, 'key': (name, fault, at, None)}
        if fin['status'] in ('hang', 'blocked-recv'):
            viol.append((sig + ':loop-%s' % fin['status'], 'provider loop %s (%s)' % (fin['status'], where)))
            return {'viol': viol, 'case': case, 'key': None}
    if fin['status'] in ('raised', 'hang', 'blocked-recv'):
        viol.append((sig + ':loop-%s:%s' % (fin['status'], (fin['exc'] or '').split('(')[0]), 'provider loop %s: %s (%s)' % (fin['status'], fin['exc'], where)))
        return {'viol': viol, 'case': case, 'key': None}
    if fin.get('exit_sock') == 'open':
        viol.append((sig + ':exit-event-before-close', 'the loop-exited event was set while the transport was still open: kill() can return (and the caller go on) '
                     'before the connection is released (%s)' % where))
    if not fin['thread_flag']:
        viol.append((sig + ':exit-event-not-set', 'run() ended but the loop-exited event is not set: kill() would wait forever (%s)' % where))
    inds = [x for st in env.steps for x in st['inds']]
    indicated = any(x[0] in ('A-ASSOCIATE-RQ', 'A-ASSOCIATE-AC') for x in inds)
    gone = [x for x in inds if x[0] in ('A-ABORT', 'A-RELEASE-RP', 'A-ASSOCIATE-RJ')]
    states_at = [st.get('state') for st in env.steps]
    if fault in ('disconnect-after-prefix', 'disconnect-at-loop-head', 'reset', 'send-fails'):
        if fin['state'] != 0 or fin['sock'] == 'open' or fin['timer']:
            viol.append((sig + ':not-idle', 'after the peer disconnected: Sta%d, transport %s, ARTIM %s (%s)' % (
                fin['state'] + 1, fin['sock'], 'running' if fin['timer'] else 'stopped', where)))
        needs = indicated and not local_ended and not any(x[0] == 'A-RELEASE-RP' for x in inds)
        if fault == 'send-fails' and hist[-2][1][0] in ('abort', 'release_rp', 'reject'):
            needs = False
        if needs and not any(x[0] in ('A-ABORT',) for x in inds):
            viol.append((sig + ':user-not-told', 'an association had been indicated but no abort indication followed the disconnect; indications %r (%s)' % (inds, where)))
        if not indicated and any(x[0] == 'A-ABORT' for x in inds) and role == 'ac':
            # acceptor: no association was ever indicated -> nothing to report to the user
            viol.append((sig + ':spurious-indication', 'abort indicated although no association had been indicated; indications %r (%s)' % (inds, where)))
        if len([x for x in inds if x[0] == 'A-ABORT']) > 1:
            viol.append((sig + ':double-indication', 'more than one abort indication: %r (%s)' % (inds, where)))
    elif fault == 'silence-while-other-association-runs':
        armed = _model_armed(role, hist[:-4])
        oth = [l for st in env.steps + [env.cur] for l in st['log'] if isinstance(l, tuple) and l[0] == 'other-association']
        if oth and (oth[0][1] != 'quiescent-end' or oth[0][2] != 0):
            viol.append((sig + ':other-association-disturbed', 'the association running in between ended %r (%s)' % (oth[0], where)))
        if armed and (fin['state'] != 0 or fin['sock'] == 'open' or fin['timer']):
            viol.append((sig + ':artim-not-honoured', 'ARTIM armed, peer silent for 10.5 s while another association of the same process was set up and released: '
                         'provider in Sta%d, transport %s, timer %s (%s)' % (fin['state'] + 1, fin['sock'], 'running' if fin['timer'] else 'not running', where)))
    elif fault == 'silence-after-partial-pdu':
        armed = _model_armed(role, hist[:-4])
        if armed and (fin['state'] != 0 or fin['sock'] == 'open' or fin['timer']):
            viol.append((sig + ':artim-not-honoured', 'ARTIM armed; the peer sent the first %d bytes of a PDU and then stayed silent for 10.5 s: provider in Sta%d, '
                         'transport %s, timer %s (%s)' % (case['cut'], fin['state'] + 1, fin['sock'], 'running' if fin['timer'] else 'not running', where)))
    elif fault == 'close-reports-error':
        if fin['state'] != 0 or fin['sock'] == 'open' or fin['timer']:
            viol.append((sig + ':not-idle', 'the conversation ran to its end (and 10.5 s more), close() reported an error: provider in Sta%d, transport %s, ARTIM %s (%s)' % (
                fin['state'] + 1, fin['sock'], 'running' if fin['timer'] else 'stopped', where)))
    elif fault == 'chatter':
        armed = _model_armed(role, hist[:-7])
        if armed and (fin['state'] != 0 or fin['sock'] == 'open' or fin['timer']):
            viol.append((sig + ':artim-not-honoured', 'ARTIM armed; the peer kept sending (unknown PDU, A-ASSOCIATE-RQ, unknown PDU at 4 s intervals) for 10.5 s after '
                         'its first stray PDU: provider in Sta%d, transport %s, timer %s (%s)' % (fin['state'] + 1, fin['sock'], 'running' if fin['timer'] else 'not running', where)))
    elif fault == 'silence':
        before = None
        k = len(hist) - 3
        st_before = env.steps[k]['state'] if k < len(env.steps) else None
        # where the protocol machine (TLA+ model, TLC graph) has ARTIM armed after this prefix
        armed = _model_armed(role, hist[:-3])
        if armed and (fin['state'] != 0 or fin['sock'] == 'open' or fin['timer']):
            viol.append((sig + ':artim-not-honoured', 'the protocol arms ARTIM at this point and the peer stayed silent for 10.5 s: provider in Sta%d, transport %s, '
                         'timer %s (%s)' % (fin['state'] + 1, fin['sock'], 'running' if fin['timer'] else 'not running', where)))
        elif st_before in (1, 12):
            if fin['state'] != 0 or fin['sock'] == 'open' or fin['timer']:
                viol.append((sig + ':artim-not-honoured', 'ARTIM was armed (Sta%d) and the peer stayed silent for 10.5 s: provider in Sta%d, transport %s (%s)' % (
                    st_before + 1, fin['state'] + 1, fin['sock'], where)))
        elif st_before is not None and fin['state'] != st_before:
            viol.append((sig + ':state-changed-by-time', 'time alone moved the provider from Sta%d to Sta%d (%s)' % (st_before + 1, fin['state'] + 1, where)))
    elif fault == 'stop-flag':
        if fin['sock'] == 'open':
            viol.append((sig + ':transport-left-open', 'the provider was stopped in Sta%d and run() returned with the transport still open (%s)' % (fin['state'] + 1, where)))
        if fin['status'] != 'returned' and 'killed-flag-seen' not in [l for st in env.steps for l in st['log']] + env.cur['log']:
            viol.append((sig + ':did-not-stop', 'stop flag set but run() did not return at the next loop head (%s)' % where))
    elif fault == 'stop-call':
        logs = [l for st in env.steps + [env.cur] for l in st['log'] if isinstance(l, tuple) and l[0] == 'stop-returned']
        st_before = env.steps[len(hist) - 1]['state'] if len(hist) - 1 < len(env.steps) else None
        if logs and st_before is not None and logs[0][1] != (st_before == 0):
            viol.append((sig + ':stop-result', 'stop() returned %r in Sta%d (%s)' % (logs[0][1], st_before + 1, where)))
    key = (name, fault, at, case.get('dev'), case.get('cut'))
    return {'viol': viol, 'case': case if viol else None, 'key': key,
            'sample': case if (at, fault) in ((7, 'disconnect-after-prefix'), (3, 'silence')) and name == 'ac-echo' else None}


def finalize(rep, tier, seed):
    rep.coverage['states'] = len(rep.nontrivial)
    rep.coverage['transitions'] = rep.evaluations
    rep.coverage['traces_validated_against_impl'] = rep.evaluations
    rep.coverage['fault_points'] = len(rep.nontrivial)
    rep.coverage['explanation'] = ('every fault point of the corpus is one execution of the real provider loop on the simulated transport; '
                                   'states = distinct (conversation, fault kind, fault point)')
    try:
        from . import c13_stack
        c13_stack.extend(rep, tier, seed)
    except ImportError:
        rep.coverage['part2_whole_stack'] = 'not built yet'
