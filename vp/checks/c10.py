"""C10 - negotiated maximum PDU length honoured in both directions, including 0 = unlimited (E1)."""
from .. import common, assoc, msggen, ref_cmd, stubs, pdugen

ID = 'C10'
LEVEL = 'exploration'
CHUNK = 10
RULE = ('all pairs (local configured maximum, peer announced maximum) over the grid {0, 7, 8, 127, 128, 1024, 16384, 65536, '
        '2^31, 2^32-1} with +-1 neighbours (22 values, 484 pairs) x both roles (real AssociationAcceptor.accept on a '
        'reference-built request / real AssociationRequester.request against a reference-built reply, stub provider) x '
        'peer Maximum Length sub-item first or second in the user information x messages of F-1, F, F+1, 3F+2 bytes for '
        'the fragment size F in force (capped at 200 kB). distinct/non-trivial = distinct (role, local, peer, message '
        'size class) combinations')
ASSUMPTIONS = ['0 = no limit (PS3.8 D.1)', 'non-zero maxima below 7 cannot carry a payload byte and are not in the grid',
               'absolute message sizes capped at 200 kB: for larger F only messages smaller than one fragment are sent']

A = '1.2.840.10008.1.1'
IMPL = '1.2.840.10008.1.2'


def grid(thorough=False):
    out = {0}
    vals = (7, 8, 127, 128, 1024, 16384, 65536, 2 ** 31, 2 ** 32 - 1)
    if thorough:
        vals = tuple(sorted(set(vals + tuple(2 ** k for k in range(3, 33)) + (10, 100, 1000, 4096 + 6, 16384 + 6, 2 ** 32 - 1))))
    for v in vals:
        for d in ((-1, 0, 1) if not thorough else (-2, -1, 0, 1, 2)):
            if 7 <= v + d <= 2 ** 32 - 1:
                out.add(v + d)
    return sorted(out)


def domain(tier):
    return {'grid': grid(tier == 'thorough')}


def cases(tier, seed):
    g = grid(tier == 'thorough')
    for role in ('acceptor', 'requestor'):
        for L in g:
            for P in g:
                yield {'role': role, 'L': L, 'P': P, 'ml_first': True}
    for role in ('acceptor', 'requestor'):
        for L in (0, 16384):
            for P in (0, 128, 65536):
                yield {'role': role, 'L': L, 'P': P, 'ml_first': False}
    # an association object created with its own limit (public constructor argument), different from the entity-wide one
    for L in (0, 7, 128, 16384, 65536):
        for LA in (0, 64, 16384, 2 ** 32 - 1):
            if LA != L:
                for P in (0, 128, 65536):
                    yield {'role': 'requestor', 'L': L, 'P': P, 'ml_first': True, 'ae_L': LA}
                    yield {'role': 'acceptor', 'L': L, 'P': P, 'ml_first': True, 'ae_L': LA}


def _ml_values(pdu_obj):
    t = pdugen.to_tree(type(pdu_obj).decode(pdu_obj.encode()))
    vals = []
    for it in t['items']:
        if it['t'] == 0x50:
            vals += [s['max'] for s in it['subs'] if s['t'] == 0x51]
    return vals


def run_case(case):
    common.import_repo()
    from pynetdicom2 import asceprovider, applicationentity
    role, L, P = case['role'], case['L'], case['P']
    viol = []
    sig = 'c10:%s' % role
    where = 'role=%s local=%d%s peer=%d ml_first=%s' % (role, L, ' (entity-wide %d)' % case['ae_L'] if 'ae_L' in case else '', P, case['ml_first'])
    zl = 'L0' if L == 0 else 'L+'
    zp = 'P0' if P == 0 else 'P+'
    tag = '%s%s%s' % (zl, zp, '' if case['ml_first'] else ':ml-second')
    svc = assoc.Recorder('svc', [A])
    try:
        if role == 'acceptor':
            ae = assoc.make_ae('SCP', [IMPL], case.get('ae_L', L), [svc])
            a = assoc.make_acceptor(ae, L if 'ae_L' in case else None)
            rq = assoc.decode_pdu(assoc.rq_tree([(1, A, [IMPL])], max_len=P, ml_first=case['ml_first']))
            a.accept(rq)
            announce = [p for p in a.dul.sent if getattr(p, 'pdu_type', None) == 2]
        else:
            ae = applicationentity.ClientAE('SCU', [IMPL], case.get('ae_L', L)).add_scu(svc)
            with stubs.patched_dul():
                a = asceprovider.AssociationRequester(ae, L, {'aet': 'SCP', 'address': 'h', 'port': 104})
            subs_first = case['ml_first']
            tree = assoc.ac_tree([(1, 0, IMPL)], max_len=P)
            if not subs_first:
                tree['items'][-1]['subs'].reverse()
            a.dul.inbox.append(assoc.decode_pdu(tree))
            a.request()
            announce = [p for p in a.dul.sent if getattr(p, 'pdu_type', None) == 1]
    except Exception as exc:
        return {'viol': [(sig + ':negotiation-raises:' + tag, 'negotiation raised %r (%s)' % (exc, where))], 'case': case, 'key': None}
    if len(announce) != 1:
        viol.append((sig + ':announce-count', '%d association PDUs handed to the provider (%s)' % (len(announce), where)))
    else:
        mls = _ml_values(announce[0])
        if len(mls) != 1:
            viol.append((sig + ':announce-ml-items', 'Maximum Length sub-items %r in the %s (%s)' % (mls, 'AC' if role == 'acceptor' else 'RQ', where)))
        elif L != 0 and (mls[0] == 0 or mls[0] > L):
            viol.append((sig + ':announced-more-than-configured:' + tag,
                         'announces maximum length %d but is configured for %d (%s)' % (mls[0], L, where)))
    if sorted(a.accepted_contexts) != [1]:
        viol.append((sig + ':association-unusable:' + tag, 'after the negotiation the accepted contexts are %r (context 1 was proposed and accepted) (%s)' % (
            sorted(a.accepted_contexts), where)))
    lim = a.max_pdu_length
    # the fragment size the library will use; the peer's limit decides what is allowed
    bound = P if P else None
    eff = lim if lim else (P if P else 65536)
    F = max(eff - 6, 1)
    sizes = sorted(set(s for s in (1, F - 1, F, F + 1, 2 * F, 2 * F + 1, 3 * F, 3 * F + 2) if 1 <= s <= 200000)) or [1]
    keys = []
    a.dul.sent[:] = []
    for n in sizes:
        raw = bytes((i * 17 + 1) & 0xFF for i in range(n))
        import io
        # exact multiples of the fragment size go out from a file-like source (the end-of-data test of the file path), the
        # others alternate between bytes and file-like
        src = io.BytesIO(raw) if (n % F == 0 and n >= F) else (raw if (n + len(sizes)) % 2 or n <= F else io.BytesIO(raw))
        if n == 3 * F + 2 or n == 2 * F + 1:
            # a raw stream that legally returns less than it was asked for
            from .c06 import ShortReader
            src = ShortReader(raw)
        msg = msggen.make('CStoreRQMessage', sop_class=A, data_set=src)
        try:
            a.send(msg, 1)
        except Exception as exc:
            viol.append((sig + ':send-raises:' + tag, 'send of %d bytes raised %r (%s)' % (n, exc, where)))
            continue
        pdus = a.dul.sent[-1]
        cmd, data, flags = msggen.collect(pdus)
        if bound is not None:
            over = [f[3] for f in flags if f[3] > bound]
            if over:
                viol.append((sig + ':exceeds-peer-limit:' + tag, 'P-DATA-TF of length %d sent, peer announced %d (%s, message %d bytes)'
                             % (max(over), bound, where, n)))
        hd = [f[1] for f in flags if f[1] in (0, 2)]
        if not hd or hd[-1] != 2 or hd.count(2) != 1:
            viol.append((sig + ':message-never-completes:' + tag, 'message with %d data bytes: data fragments carry control headers %r - the receiver '
                         'cannot tell where the message ends (%s; limit in force %r)' % (n, hd[-4:], where, lim)))
        if data != raw or ref_cmd.well_formed(cmd, 0x0001, True):
            viol.append((sig + ':message-not-transmitted:' + tag,
                         'message with %d data bytes: %d P-DATA PDUs produced, %d data bytes, command problems %r (%s; limit in force %r)'
                         % (n, len(pdus), len(data), ref_cmd.well_formed(cmd, 0x0001, True)[:1], where, lim)))
        keys.append((n < F, n == F, n > F))
    return {'viol': viol, 'case': case if viol else None, 'key': (role, L, P, case['ml_first'], case.get('ae_L')),
            'count': {'sends': len(sizes)},
            'sample': dict(case, limit_in_force=lim, sizes=sizes) if (L, P) in ((16384, 128), (0, 0)) else None}
