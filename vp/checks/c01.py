"""C01 - PDU encode/decode round trip for every PDU, item and sub-item (E1)."""
from .. import common, pdugen

ID = 'C01'
LEVEL = 'exploration'
CHUNK = 100
RULE = ('every PDU value of the declared grammar (pdugen.trees): 7 PDU types; every variable-item list of length 0..3 '
        '(4 thorough) over {application context, presentation context, user information}; every ordered adjacency of '
        'the 9 user-information sub-item kinds (x field grids), each kind single/last, 9 rotations; AE titles of every '
        'length 0..16; UID lengths 0,1,2,63,64; integer fields at 0/1/mid/max; 1..4 PDVs with data_value lengths '
        '1..70001. distinct/non-trivial = distinct structural shape (item types + field lengths) of the PDU value')
ASSUMPTIONS = ['values are generated in the form the constructors store them (UID where decode() yields UID); '
               'str/UID compared by value; list/tuple both count as sequences',
               'AE titles with leading/trailing SPACE are not generated (non-significant per PS3.8 9.3.2)']


def domain(tier):
    return {'generator': 'vp/pdugen.py:trees(%s)' % tier}


def cases(tier, seed):
    for label, tree in pdugen.trees(tier):
        yield {'label': label, 'tree': tree}


def run_case(case):
    common.import_repo()
    tree = common.unbytes(case['tree'])
    label = case['label']
    viol = []
    sig = 'c01:%s' % label
    try:
        obj = pdugen.from_tree(tree)
    except Exception as exc:
        raise common.HarnessError('cannot construct %s: %r' % (label, exc))
    try:
        raw = obj.encode()
    except Exception as exc:
        return {'viol': [(sig + ':encode-raises', 'encode() raised %r for %s' % (exc, common.short(tree)))],
                'case': case, 'key': None}
    try:
        back = type(obj).decode(raw)
    except Exception as exc:
        return {'viol': [(sig + ':decode-raises', 'decode(encode(x)) raised %r; x=%s' % (exc, common.short(tree)))],
                'case': case, 'key': None}
    d = pdugen.deep_diff(obj, back)
    if d:
        viol.append((sig + ':fields', 'decode(encode(x)) differs from x at %s; x=%s' % (d, common.short(tree, 500))))
    try:
        again = back.encode()
        if again != raw:
            i = next((k for k in range(min(len(again), len(raw))) if again[k] != raw[k]), min(len(again), len(raw)))
            viol.append((sig + ':reencode', 'decode(b).encode() != b (lengths %d vs %d, first difference at byte %d); x=%s'
                         % (len(again), len(raw), i, common.short(tree, 500))))
    except Exception as exc:
        viol.append((sig + ':reencode-raises', 're-encoding the decoded PDU raised %r; x=%s' % (exc, common.short(tree))))
    return {'viol': viol, 'case': case if viol else None, 'key': pdugen.shape(tree),
            'sample': {'label': label, 'bytes': len(raw)} if label in ('ui-pair-EXT-IVN', 'items-UAP', 'pdata-2') else None}
