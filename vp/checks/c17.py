"""C17 - every SCP response correlates with its request (message id, UIDs, context) (E1)."""
import contextlib
import itertools

from .. import common, assoc, dsgen, msggen, ref_cmd, stubs

ID = 'C17'
LEVEL = 'exploration'
CHUNK = 20
RULE = ('provider callables {verification_scp, storage_scp, qr_find_scp, qr_move_scp, StorageCommitment.n_action, '
        'StorageCommitment.n_event_report, qr_get_scu (its C-STORE-RSP)} x message id in {0,1,2,255,256,32767,32768,65534,'
        '65535} x SOP class / instance UID lengths {1,2,63,64 / typical} x context id in {1,3,127,255} x handler outcome '
        '{one status per class, EventHandlingError} x (commitment) success-only / failure-only / mixed lists; request built, '
        'fragmented, reassembled by the real decoder and dispatched by the real AssociationAcceptor._loop; every response '
        'read from its wire form by the reference command reader. distinct/non-trivial = distinct '
        '(service, message id, context id, outcome, uid shape)')
ASSUMPTIONS = ['failure code on EventHandlingError: verification/N-ACTION/N-EVENT-REPORT 0x0110, C-STORE 0xC000, C-GET sub-operation '
               '0xC000; for C-FIND / C-MOVE any failure-class status is accepted (no code is documented)',
               'sub-associations (C-MOVE destination, commitment report) are recording stubs installed on ae.request_association']

TS = '1.2.840.10008.1.2'
VERIF = '1.2.840.10008.1.1'
CT = '1.2.840.10008.5.1.4.1.1.2'
FIND = '1.2.840.10008.5.1.4.1.2.1.1'
MOVE = '1.2.840.10008.5.1.4.1.2.1.2'
GET = '1.2.840.10008.5.1.4.1.2.1.3'
COMMIT = '1.2.840.10008.1.20.1'
MSG_IDS = [0, 1, 2, 255, 256, 32767, 32768, 65534, 65535]
MSG_IDS_T = sorted(set(MSG_IDS + [2 ** k for k in range(16)] + [2 ** k - 1 for k in range(1, 17)] + [3, 100, 1000, 10000, 50000]))
PCS = [1, 3, 127, 255]
OUTCOMES = {
    'echo': [0x0000, 0x0122, 'EHE'],
    'store': [0x0000, 0xB000, 0xB006, 0xA700, 0xC123, 0x0110, 'EHE'],
    'find': ['ok0', 'ok2', 'EHE', 'EHE-lazy0', 'EHE-lazy1', 'nested2'],
    'move': ['ok0', 'ok2', 'EHE'],
    'n_action': ['succ', 'fail', 'mixed', 'EHE'],
    'n_event_report': ['ok', 'EHE'],
    'get_store': [0x0000, 0xB000, 0xA700, 'EHE'],
    'get_store2': [0x0000, 0xB000],
    'get_store2s': [0x0000],
    'get_store_other': [0x0000, 0xA700],      # the sub-operation's SOP class is not the abstract syntax of the context it arrives on
    'store_plain': [0x0000, 0xB000, 0xA700],      # the handler answers with a plain integer status code
    'user_n_action': ['x'],      # an application-defined MessageDispatcherSCP service next to StorageCommitment
    'user_n_event': ['x'],
}


def domain(tier):
    return {'message_ids': MSG_IDS, 'context_ids': PCS, 'outcomes': OUTCOMES}


def cases(tier, seed):
    for svc in OUTCOMES:
        for out in OUTCOMES[svc]:
            for mid in (MSG_IDS if tier == 'quick' else MSG_IDS_T):
                for pc in (PCS if tier == 'quick' else [1, 3, 5, 63, 127, 129, 253, 255]):
                    for ul in ((24,) if (mid + pc) % 3 and tier == 'quick' else (1, 2, 63, 64, 24)):
                        yield {'svc': svc, 'outcome': out, 'mid': mid, 'pc': pc, 'uidlen': ul}
    # sessions: every ordered pair (triple in the thorough tier) of provider paths on one entity
    reps = [('echo', 0), ('store', 0xB000), ('find', 'ok2'), ('move', 'ok2'), ('n_action', 'mixed'), ('n_event_report', 'ok'),
            ('user_n_action', 'x'), ('user_n_event', 'x'), ('find', 'EHE'), ('n_action', 'EHE')]
    for tup in itertools.product(range(len(reps)), repeat=2 if tier == 'quick' else 3):
        yield {'seq': [{'svc': reps[i][0], 'outcome': reps[i][1], 'mid': 100 + 7 * k, 'pc': (1, 3, 5)[k], 'uidlen': 24} for k, i in enumerate(tup)]}


class _SubAssoc(object):
    def __init__(self, log):
        self.log = log
        self.association_established = True

    def get_scu(self, sop_class):
        from pynetdicom2 import statuses, dimsemessages

        def store(ds, msg_id):
            self.log.append(('sub-store', str(ds.SOPInstanceUID), msg_id))
            return statuses.Status(0x0000, dimsemessages.CStoreRSPMessage)
        return store

    def send(self, msg, pc):
        msg.set_length()
        self.log.append(('sub-send', msg, pc))

    def receive(self):
        self.log.append(('sub-receive',))
        return (None, 1)


def _ae_class():
    from pynetdicom2 import applicationentity, exceptions, statuses

    class SvcAE(applicationentity.AE):
        outcome = None
        sublog = None
        nested = None
        plain = False

        def _st(self):
            if self.outcome == 'EHE':
                raise exceptions.EventHandlingError('handler failed')
            return statuses.Status(self.outcome)

        def on_receive_echo(self, context):
            return self._st()

        def on_receive_store(self, context, ds):
            if self.plain:
                return int(self.outcome)
            return self._st()

        def on_receive_find(self, context, ds):
            if self.outcome == 'EHE':
                raise exceptions.EventHandlingError('handler failed')
            if self.outcome.startswith('EHE-lazy'):
                k = int(self.outcome[8:])

                def gen():
                    for i in range(k):
                        yield dsgen.make('a', i), statuses.C_FIND_PENDING
                    raise exceptions.EventHandlingError('handler failed lazily')
                return gen()
            if self.outcome.startswith('nested') and self.nested is not None:
                # while this request is being handled another association of the same entity serves a C-FIND
                # with other identifiers (what a second handler thread would do in between)
                fn, self.nested = self.nested, None
                fn()
            n = int(self.outcome[-1])
            return iter([(dsgen.make('a', i), statuses.C_FIND_PENDING) for i in range(n)])

        def on_receive_move(self, context, ds, destination):
            if self.outcome == 'EHE':
                raise exceptions.EventHandlingError('handler failed')
            n = int(self.outcome[2:])
            return {'aet': 'DEST', 'address': 'h', 'port': 1}, n, iter([dsgen.make('a', i, inst='1.2.%d' % i) for i in range(n)])

        def on_commitment_request(self, remote_ae, uids):
            uids = list(uids)
            if self.outcome == 'EHE':
                raise exceptions.EventHandlingError('handler failed')
            succ = [(c, i) for c, i in uids]
            if self.outcome == 'succ':
                return {'aet': 'R'}, succ, None
            if self.outcome == 'fail':
                return {'aet': 'R'}, None, [(c, i, 0x0112) for c, i in uids]
            return {'aet': 'R'}, succ[:1], [(c, i, 0x0110) for c, i in succ[1:]]

        def on_commitment_response(self, transaction_uid, success, failure):
            self.sublog.append(('commit-response', str(transaction_uid), list(success), list(failure)))
            if self.outcome == 'EHE':
                raise exceptions.EventHandlingError('handler failed')

        @contextlib.contextmanager
        def request_association(self, remote_ae):
            self.sublog.append(('sub-assoc', remote_ae))
            yield _SubAssoc(self.sublog)
    return SvcAE


def _commit_ds(n=2):
    import pydicom
    ds = pydicom.Dataset()
    ds.TransactionUID = '1.2.3.777'
    seq = []
    for i in range(n):
        it = pydicom.Dataset()
        it.ReferencedSOPClassUID = CT
        it.ReferencedSOPInstanceUID = '1.2.3.%d' % (i + 1)
        seq.append(it)
    ds.ReferencedSOPSequence = pydicom.Sequence(seq)
    return ds


def run_case(case):
    common.import_repo()
    if 'stack' in case:
        from .. import svc_stack
        return svc_stack.run_case(case, 'c17:')
    if 'seq' in case:
        # a session: several requests served one after the other by ONE entity (same service objects, same process);
        # every response is checked exactly as if the request had come first
        sae = _make_sae()
        viol, n = [], 0
        for i, sub in enumerate(case['seq']):
            res = _one(sub, sae)
            n += res.get('count', {}).get('responses_checked', 0)
            for s_, m in res['viol']:
                viol.append((s_.replace('c17:', 'c17:session:', 1), 'request %d of session %s: %s' % (i + 1, [x['svc'] for x in case['seq']], m)))
            if res['viol']:
                break
        return {'viol': viol, 'case': case if viol else None, 'key': ('seq',) + tuple((x['svc'], str(x['outcome'])) for x in case['seq']),
                'count': {'responses_checked': n}}
    return _one(case, None)


PRIVATE = '1.2.840.10008.5.1.1.9999'


def _make_sae():
    from pynetdicom2 import sopclass, dimsemessages

    class UserSvc(sopclass.MessageDispatcherSCP):
        """An application-defined dispatcher-based provider next to the library's StorageCommitment."""
        sop_classes = [PRIVATE]

        def n_action(self, asce, ctx, msg):
            rsp = dimsemessages.NActionRSPMessage()
            rsp.message_id_being_responded_to = msg.message_id
            rsp.action_type_id = 7
            rsp.sop_class_uid = ctx.sop_class
            rsp.affected_sop_instance_uid = msg.requested_sop_instance_uid
            rsp.status = 0x0213
            asce.send(rsp, ctx.id)

        def n_event_report(self, asce, ctx, msg):
            rsp = dimsemessages.NEventReportRSPMessage()
            rsp.message_id_being_responded_to = msg.message_id
            rsp.sop_class_uid = ctx.sop_class
            rsp.event_type_id = msg.event_type_id
            rsp.affected_sop_instance_uid = msg.affected_sop_instance_uid
            rsp.status = 0x0211
            asce.send(rsp, ctx.id)
    SvcAE = _ae_class()
    sae = assoc.make_ae('SCP', [TS], 65536, [sopclass.verification_scp, sopclass.storage_scp, sopclass.qr_find_scp,
                                             sopclass.qr_move_scp, sopclass.StorageCommitment(), UserSvc()], cls=SvcAE)
    sae.vp_cls = SvcAE
    return sae


def _one(case, sae):
    from pynetdicom2 import sopclass, applicationentity, statuses, exceptions
    from ..pdugen import uid_of_len
    svc, out, mid, pc = case['svc'], case['outcome'], case['mid'], case['pc']
    viol = []
    sig = 'c17:%s' % svc
    where = common.short(case, 200)
    inst = uid_of_len(case['uidlen'], 3)
    if sae is None:
        sae = _make_sae()
    SvcAE = sae.vp_cls
    sae.outcome, sae.sublog = out, []
    sae.plain = svc == 'store_plain'
    if svc == 'store_plain':
        svc = 'store'
    other_class = svc == 'get_store_other'
    if other_class:
        svc = 'get_store'
    same_class = svc == 'get_store2s'
    if same_class:
        svc = 'get_store2'
    sop = {'echo': VERIF, 'store': CT, 'find': FIND, 'move': MOVE, 'n_action': COMMIT, 'n_event_report': COMMIT, 'get_store': CT,
           'get_store2': CT, 'user_n_action': PRIVATE, 'user_n_event': PRIVATE}[svc]
    MR = CT if same_class else '1.2.840.10008.5.1.4.1.1.4'      # 'get_store2s': the same class accepted on two contexts
    # client side (for get_store the *client* is the entity under test)
    cae = SvcAE.__new__(SvcAE)
    applicationentity.AEBase.__init__(cae, [TS], 65536)
    cae.local_ae = {'aet': 'SCU', 'address': 'h'}
    cae.outcome, cae.sublog = out, []
    cae.add_scu(sopclass.qr_get_scu)
    cae.update_context_def_list([CT])
    if svc == 'get_store2':
        # two C-STORE sub-operations of one C-GET arriving on two different storage contexts
        from pynetdicom2 import asceprovider
        from pydicom import uid
        cae.context_def_list = {}
        pcs3 = [q for q in (1, 3, 5, 7, 9) if q != pc][:2]
        getpc, pc2 = pcs3
        for q, u in ((getpc, GET), (pc, CT), (pc2, MR)):
            cae.context_def_list[q] = asceprovider.PContextDef(q, uid.UID(u), cae.supported_ts)
        link = assoc.Link(sae, cae, {getpc: (GET, TS), pc: (CT, TS), pc2: (MR, TS)})
        gen = link.scu.get_scu(GET)(dsgen.make('query'), 99)
        link.scu.dul.pump = None
        seq = [(pc2, MR, inst + '.9', (mid + 1) % 65536), (pc, CT, inst, mid), (pc2, MR, inst + '.8', (mid + 2) % 65536)]
        for q, u, ii, m in seq:
            link.scp.send(msggen.make('CStoreRQMessage', sop_class=u, sop_inst=ii, msg_id=m,
                                      data_set=dsgen.enc(dsgen.make('a', sop_class=u, inst=ii), TS)), q)
        link.scp.send(msggen.make('CGetRSPMessage', sop_class=GET, msg_id=99, status=0), getpc)
        try:
            list(gen)
        except Exception as exc:
            return {'viol': [(sig + ':raises', 'qr_get_scu raised %r (%s)' % (exc, where))], 'case': case, 'key': None}
        got = []
        for d, pdus in link.log:
            if d == 'scu->scp' and isinstance(pdus, list):
                cmd, data, flags = msggen.collect(pdus)
                el = ref_cmd.read(cmd)
                if ref_cmd.value(el, 0x0100) == 0x8001:
                    got.append((flags[0][0], ref_cmd.value(el, 0x0002), ref_cmd.value(el, 0x1000), ref_cmd.value(el, 0x0120), ref_cmd.value(el, 0x0900)))
        exp = [(q, u, ii, m, out) for q, u, ii, m in seq]
        if got != exp:
            viol.append((sig + ':responses', 'C-STORE responses (context, class, instance, msg id, status) %r, expected %r (%s)' % (got, exp, where)))
        return {'viol': viol, 'case': case if viol else None, 'key': (svc, same_class, str(out), mid, pc, case['uidlen'])}
    if svc == 'get_store':
        # context ids known to the client AE: C-GET on 1.. and the storage context under `pc`
        cae.context_def_list = {}
        from pynetdicom2 import asceprovider
        from pydicom import uid
        getpc = 1 if pc != 1 else 5
        cae.context_def_list[getpc] = asceprovider.PContextDef(getpc, uid.UID(GET), cae.supported_ts)
        cae.context_def_list[pc] = asceprovider.PContextDef(pc, uid.UID(CT), cae.supported_ts)
        link = assoc.Link(sae, cae, {getpc: (GET, TS), pc: (CT, TS)})
        gen = link.scu.get_scu(GET)(dsgen.make('query'), 99)
        # the peer (played by the harness through the scp end) sends one C-STORE-RQ then the final C-GET-RSP
        if other_class:
            sop = CT + '.1'        # e.g. an Enhanced CT instance sent over the CT Image Storage context
        store_rq = msggen.make('CStoreRQMessage', sop_class=sop if other_class else CT, sop_inst=inst, msg_id=mid, data_set=dsgen.enc(dsgen.make('a'), TS))
        final = msggen.make('CGetRSPMessage', sop_class=GET, msg_id=99, status=0)
        link.scu.dul.pump = None
        sent_before = len(link.log)
        link.scp.send(store_rq, pc)
        link.scp.send(final, getpc)
        try:
            items = list(gen)
        except Exception as exc:
            return {'viol': [(sig + ':raises', 'qr_get_scu raised %r (%s)' % (exc, where))], 'case': case, 'key': None}
        rsps = [(d, i) for d, i in link.log if d == 'scu->scp' and isinstance(i, list)][1:]   # [0] is the C-GET-RQ
        req = store_rq
        req_field = 0x0001
        exp_status = 0xC000 if out == 'EHE' else out
        exp_pc = pc
    else:
        link = assoc.Link(sae, cae, {pc: (sop, TS)})
        if svc == 'echo':
            req = msggen.make('CEchoRQMessage', sop_class=VERIF, msg_id=mid)
        elif svc == 'store':
            req = msggen.make('CStoreRQMessage', sop_class=CT, sop_inst=inst, msg_id=mid, data_set=dsgen.enc(dsgen.make('a'), TS))
        elif svc == 'find':
            req = msggen.make('CFindRQMessage', sop_class=FIND, msg_id=mid, data_set=dsgen.enc(dsgen.make('query'), TS))
            if str(out).startswith('nested'):
                STUDY_FIND = '1.2.840.10008.5.1.4.1.2.2.1'
                link2 = assoc.Link(sae, cae, {pc: (STUDY_FIND, TS)})

                def nested():
                    link2.scu.send(msggen.make('CFindRQMessage', sop_class=STUDY_FIND, msg_id=(mid + 4242) % 65536,
                                               data_set=dsgen.enc(dsgen.make('query2'), TS)), pc)
                    link2.serve()
                sae.nested = nested
        elif svc == 'move':
            req = msggen.make('CMoveRQMessage', sop_class=MOVE, msg_id=mid, data_set=dsgen.enc(dsgen.make('query'), TS))
        elif svc == 'user_n_action':
            req = msggen.make('NActionRQMessage', sop_class=PRIVATE, sop_inst='1.2.840.10008.1.20.1.1', msg_id=mid,
                              data_set=dsgen.enc(_commit_ds(), TS))
        elif svc == 'user_n_event':
            req = msggen.make('NEventReportRQMessage', sop_class=PRIVATE, sop_inst='1.2.840.10008.1.20.1.1', msg_id=mid,
                              data_set=dsgen.enc(_commit_ds(), TS))
        elif svc == 'n_action':
            req = msggen.make('NActionRQMessage', sop_class=COMMIT, sop_inst='1.2.840.10008.1.20.1.1', msg_id=mid,
                              data_set=dsgen.enc(_commit_ds(), TS))
        else:
            rds = _commit_ds()
            req = msggen.make('NEventReportRQMessage', sop_class=COMMIT, sop_inst='1.2.840.10008.1.20.1.1', msg_id=mid,
                              data_set=dsgen.enc(rds, TS))
        req_field = ref_cmd.COMMAND_FIELD[type(req).__name__]
        link.scu.send(req, pc)
        try:
            link.serve()
            escaped = None
        except Exception as exc:
            escaped = exc
        rsps = [(d, i) for d, i in link.log if d == 'scp->scu' and isinstance(i, list)]
        exp_pc = pc
        exp_status = {'echo': 0x0110, 'store': 0xC000, 'n_action': 0x0110, 'n_event_report': 0x0110}.get(svc) if str(out).startswith('EHE') else (
            out if isinstance(out, int) else 0x0000)
        if svc == 'user_n_action':
            exp_status = 0x0213
        if svc == 'user_n_event':
            exp_status = 0x0211
        if escaped is not None:
            viol.append((sig + ':handler-error-escapes:%s' % (type(escaped).__name__,),
                         'service let %r escape (outcome %s); %d responses had been sent (%s)' % (escaped, out, len(rsps), where)))
    # ---- check every response on the wire
    parsed = []
    for _, pdus in rsps:
        cmd, data, flags = msggen.collect(pdus)
        try:
            elems = ref_cmd.read(cmd)
        except ref_cmd.CmdError as exc:
            viol.append((sig + ':unparseable', 'response command set unparseable: %s' % exc))
            continue
        parsed.append((elems, flags, data))
    finals = 0
    for elems, flags, data in parsed:
        cf = ref_cmd.value(elems, 0x0100)
        st = ref_cmd.value(elems, 0x0900)
        n = len(parsed)
        if any(f[0] != exp_pc for f in flags):
            viol.append((sig + ':context', 'response sent on context %r, request arrived on %d (%s)' % (sorted(set(f[0] for f in flags)), exp_pc, where)))
        if cf != (req_field | 0x8000):
            viol.append((sig + ':command-field', 'response command field %r for request 0x%04X (%s)' % (cf, req_field, where)))
        if ref_cmd.value(elems, 0x0120) != mid:
            viol.append((sig + ':message-id', 'MessageIDBeingRespondedTo=%r, request MessageID=%d (%s)' % (ref_cmd.value(elems, 0x0120), mid, where)))
        if ref_cmd.value(elems, 0x0002) != sop:
            viol.append((sig + ':sop-class', 'AffectedSOPClassUID=%r, request SOP class %s (%s)' % (ref_cmd.value(elems, 0x0002), sop, where)))
        if svc in ('store', 'get_store', 'n_action', 'n_event_report', 'user_n_action', 'user_n_event'):
            want = inst if svc in ('store', 'get_store') else '1.2.840.10008.1.20.1.1'
            if ref_cmd.value(elems, 0x1000) != want:
                viol.append((sig + ':sop-instance', 'AffectedSOPInstanceUID=%r, request instance %s (%s)' % (ref_cmd.value(elems, 0x1000), want, where)))
        pending = st in (0xFF00, 0xFF01)
        if not pending:
            finals += 1
            if exp_status is not None and st != exp_status:
                viol.append((sig + ':status', 'final status %r, handler outcome %r -> expected 0x%04X (%s)' % (
                    '0x%04X' % st if isinstance(st, int) else st, out, exp_status, where)))
            if exp_status is None and str(out).startswith('EHE') and isinstance(st, int):
                typ = statuses.Status(st, msggen.msg_class('CFindRSPMessage' if svc == 'find' else 'CMoveRSPMessage')).status_type
                if typ != 'Failure':
                    viol.append((sig + ':status', 'handler raised EventHandlingError but the final status 0x%04X is %s (%s)' % (st, typ, where)))
    if finals != 1:
        viol.append((sig + ':answer-count:%d' % min(finals, 2), '%d final responses for one request (outcome %s; %d responses in total) (%s)' % (
            finals, out, len(parsed), where)))
    if svc in ('find', 'move') and (out.startswith('ok') or out.startswith('nested') or out.startswith('EHE-lazy')):
        npend = len(parsed) - finals
        if npend != int(out[-1]):
            viol.append((sig + ':pending-count', '%d pending responses for %s matches/sub-operations (%s)' % (npend, out[2:], where)))
    if svc == 'n_action' and out != 'EHE':
        sends = [x for x in sae.sublog if x[0] == 'sub-send']
        if len(sends) != 1:
            viol.append((sig + ':report-count', '%d N-EVENT-REPORT requests issued (%s)' % (len(sends), where)))
        else:
            rep = sends[0][1]
            rds = dsgen.dec(rep.data_set, TS)
            succ = [str(i.ReferencedSOPInstanceUID) for i in getattr(rds, 'ReferencedSOPSequence', [])]
            fail = [str(i.ReferencedSOPInstanceUID) for i in getattr(rds, 'FailedSOPSequence', [])]
            exp = {'succ': (['1.2.3.1', '1.2.3.2'], [], 1), 'fail': ([], ['1.2.3.1', '1.2.3.2'], 2), 'mixed': (['1.2.3.1'], ['1.2.3.2'], 2)}[out]
            if (succ, fail, rep.event_type_id) != exp or str(rds.TransactionUID) != '1.2.3.777' or rep.command_field != 0x0100 \
                    or str(rep.sop_class_uid) != COMMIT:
                viol.append((sig + ':report-content', 'N-EVENT-REPORT success=%r failed=%r event type %r transaction %r (expected %r) (%s)' % (
                    succ, fail, rep.event_type_id, str(rds.TransactionUID), exp, where)))
    return {'viol': viol, 'case': case if viol else None, 'key': (case['svc'], str(out), mid, pc, case['uidlen']),
            'count': {'responses_checked': len(parsed)},
            'sample': dict(case, responses=len(parsed)) if (mid, pc) == (256, 127) and svc in ('move', 'get_store') else None}


def finalize(rep, tier, seed):
    from .. import svc_stack
    svc_stack.extend(rep, ID, tier, seed, 'vp.checks.c17')
