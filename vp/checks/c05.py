"""C05 - provider behaviour equals the PS3.8 protocol machine over every event history.

Breadth-first search over histories of environment events on the real DULServiceProvider.run() loop
(engine E2), in lock-step with the reachable state graph of the TLA+ model (engine M, dumped by TLC).
"""
import itertools

from .. import common, e2, model

ID = 'C05'
LEVEL = 'model_checking'

STORE_SOP = '1.2.840.10008.5.1.4.1.1.2'
DATASET = bytes((i * 5 + 1) & 0xFF for i in range(30))


def _store_cmd(with_ds):
    import pydicom
    from .. import dsgen
    ds = pydicom.Dataset()
    ds.AffectedSOPClassUID = STORE_SOP
    ds.CommandField = 0x0001
    ds.MessageID = 5
    ds.Priority = 0
    ds.CommandDataSetType = 0x0001 if with_ds else 0x0101
    ds.AffectedSOPInstanceUID = '1.2.3.4.5'
    body = dsgen.enc(ds, '1.2.840.10008.1.2')
    ds.CommandGroupLength = len(body)
    return dsgen.enc(ds, '1.2.840.10008.1.2')


_C = {}
_DIGESTS = {}


def cmd(with_ds):
    if with_ds not in _C:
        _C[with_ds] = _store_cmd(with_ds)
        assert _C.setdefault(not with_ds, _store_cmd(not with_ds))[:40] == _C[with_ds][:40]
    return _C[with_ds]


REL = None
FRAG_BOUND = 2        # non-last command / data fragments per incoming message (3 in the thorough tier)
PP_SECOND = ('P:c3n', 'P:rel_rq', 'P:abort_u', 'P:rel_rp', 'P:d2')


USER_PDATA = {'U:pdata1': ('pdata', 1), 'U:pdata3': ('pdata', 3), 'U:pdata1x2': ('pdata_same',)}


class Abs(object):
    """Abstract environment state that accompanies a history: model state, reassembly progress of the
    incoming message, half-delivered PDU, and the mapping of abstract events to concrete ones."""

    def __init__(self, role, delta):
        self.role = role
        self.delta = delta
        self.m = (1, role, False, 'none')
        if role == 'ac':
            self.m = delta[self.m]['Evt5'][1]
        self.ncmd = 0          # non-last command fragments delivered of the current incoming message
        self.ndat = 0
        self.rx = 'idle'       # idle / cmd / need_ds / ds
        self.half = False
        self.dead = False      # the connection is gone without this being readable yet: the next write fails
        self.remaining = 10.0 if self.m[2] else None
        self.edges = []

    def clone(self):
        a = Abs.__new__(Abs)
        a.__dict__.update(self.__dict__)
        a.edges = list(self.edges)
        return a

    def enabled(self, pairs=True):
        out = []
        row = self.delta.get(self.m, {})
        sta, role, artim, conn = self.m
        if conn == 'open':
            if self.half:
                out += ['P:rest']
            else:
                for name, ev in (('P:rq', 'Evt6'), ('P:ac', 'Evt3'), ('P:rj', 'Evt4'), ('P:rel_rq', 'Evt12'), ('P:rel_rp', 'Evt13'),
                                 ('P:abort_u', 'Evt16'), ('P:abort_p', 'Evt16'), ('P:unknown', 'Evt19'), ('P:bad_rq', 'Evt19'),
                                 ('P:bad_pdata', 'Evt19')):
                    if ev in row:
                        out.append(name)
                if 'Evt10c' in row:
                    if sta in (6, 7):
                        if self.rx in ('idle', 'cmd'):
                            if self.ncmd < FRAG_BOUND:
                                out.append('P:c1')
                            out += ['P:c3n', 'P:c3d']
                            out.append('P:c3d2')         # last command fragment and the whole data set as two PDVs of ONE P-DATA-TF
                        else:
                            if self.ndat < FRAG_BOUND:
                                out.append('P:d0')
                            out.append('P:d2')
                            if self.ndat:
                                out.append('P:d2e')      # the data set ends with an empty last fragment (legal: a streaming sender)
                    else:
                        out += ['P:c3n', 'P:c1']      # any P-DATA-TF outside an established association
                if 'Evt12' in row:
                    out.append('P:half')
                # the same PDU with the peer's close already visible at the same poll
                singles = [x for x in out if x.startswith('P:') and x not in ('P:half', 'P:rest')]
                out += [x + '+close' for x in singles]
                if pairs:
                    # two PDUs in one segment, the second from a small set, with the close visible as well
                    for x in singles:
                        b = self.clone()
                        b.apply(x)
                        en2 = b.enabled(pairs=False)
                        for y in (PP_SECOND or [z for z in en2 if z.startswith('P:') and not z.endswith('+close') and z not in ('P:half', 'P:rest')]):
                            if y in en2:
                                out.append('PP:%s,%s+close' % (x, y))
                                if y in ('P:c3n', 'P:d2'):
                                    out.append('PP:%s,%s' % (x, y))
            if 'Evt17' in row:
                out.append('close')
                if not self.dead and not self.half and sta in (3, 6, 7, 8):
                    out.append('gone')
        if artim:
            if self.remaining is not None and self.remaining > 4.5:
                out.append('tick4')
            out.append('expire')
        for name, ev in (('U:assoc_rq', 'Evt1'), ('U:accept', 'Evt7'), ('U:reject', 'Evt8'), ('U:pdata1', 'Evt9'), ('U:pdata3', 'Evt9'), ('U:pdata1x2', 'Evt9'),
                         ('U:release_rq', 'Evt11'), ('U:release_rp', 'Evt14'), ('U:abort', 'Evt15')):
            if ev in row:
                out.append(name)
        return out

    def apply(self, a):
        """-> (concrete e2 event, expected outputs list or None when nothing is expected to happen)"""
        global REL
        if REL is None:
            REL = e2.std_release()
        sta = self.m[0]
        mevs = []
        conc = None
        if a.startswith('PP:'):
            # two PDUs arriving in one segment (optionally with the close already visible)
            glue = a.endswith('+close')
            x, y = (a[3:-6] if glue else a[3:]).split(',')
            c1, o1 = self.apply(x)
            if y not in self.enabled():
                raise common.HarnessError('second PDU %s of %s not enabled' % (y, a))
            c2, o2 = self.apply(y + '+close' if glue else y)
            return (c2[0], c1[1] + c2[1]), o1 + o2
        if a.endswith('+close'):
            conc, outs = self.apply(a[:-6])
            conc = ('bytes_close', conc[1])
            if 'Evt17' in self.delta.get(self.m, {}) and self.m[3] == 'open':
                o, nxt = self.delta[self.m]['Evt17']
                self.edges.append((self.m, 'Evt17'))
                outs = outs + list(o)
                self.m = nxt
                if not self.m[2]:
                    self.remaining = None
            return conc, outs
        if a == 'P:rq':
            conc, mevs = ('pdu', e2.std_rq()), ['Evt6']
        elif a == 'P:ac':
            conc, mevs = ('pdu', e2.std_ac()), ['Evt3']
        elif a == 'P:rj':
            conc, mevs = ('pdu', e2.std_rj(2, 1, 3)), ['Evt4']
        elif a == 'P:rel_rq':
            conc, mevs = ('pdu', REL), ['Evt12']
        elif a == 'P:rel_rp':
            conc, mevs = ('pdu', e2.std_release(True)), ['Evt13']
        elif a == 'P:abort_u':
            conc, mevs = ('pdu', e2.std_abort(0, 0)), ['Evt16']
        elif a == 'P:abort_p':
            conc, mevs = ('pdu', e2.std_abort(2, 1)), ['Evt16']
        elif a == 'P:unknown':
            conc, mevs = ('pdu', e2.unknown_pdu()), ['Evt19']
        elif a == 'P:bad_rq':
            raw = bytearray(e2.std_rq())
            raw[10] = 0xC1                      # non-ASCII byte in the called AE title: the PDU cannot be decoded
            conc, mevs = ('pdu', bytes(raw)), ['Evt19']
        elif a == 'P:bad_pdata':
            conc, mevs = ('pdu', bytes([4, 0]) + (3).to_bytes(4, 'big') + b'\x00\x00\x01'), ['Evt19']   # PDV header cut short
        elif a == 'P:half':
            conc, mevs = ('bytes', REL[:7]), []
            self.half = True
        elif a == 'P:rest':
            conc, mevs = ('bytes', REL[7:]), ['Evt12']
            self.half = False
        elif a in ('P:c1', 'P:c3n', 'P:c3d', 'P:c3d2', 'P:d0', 'P:d2', 'P:d2e'):
            established = sta in (6, 7)
            if a == 'P:c3d2':
                from .. import ref_pdu, pdugen
                full = cmd(True)
                conc = ('pdu', ref_pdu.build(pdugen.pdata([(3, b'\x03' + full[13 * self.ncmd:]), (3, b'\x02' + DATASET)])))
                mevs = ['Evt10c']
                self.rx, self.ncmd, self.ndat = 'idle', 0, 0
            elif a == 'P:c1':
                piece = cmd(True)[13 * self.ncmd:13 * self.ncmd + 13]
                conc = ('pdu', e2.pdata(3, 1, piece))
                mevs = ['Evt10p']
                if established:
                    self.ncmd += 1
                    self.rx = 'cmd'
            elif a in ('P:c3n', 'P:c3d'):
                full = cmd(a == 'P:c3d')
                off = 13 * self.ncmd if established else 0
                conc = ('pdu', e2.pdata(3, 3, full[off:]))
                if a == 'P:c3n' or not established:
                    mevs = ['Evt10c']
                    if established:
                        self.rx, self.ncmd, self.ndat = 'idle', 0, 0
                else:
                    mevs = ['Evt10p']
                    self.rx = 'need_ds'
            elif a == 'P:d0':
                conc = ('pdu', e2.pdata(3, 0, DATASET[7 * self.ndat:7 * self.ndat + 7]))
                mevs = ['Evt10p']
                self.ndat += 1
                self.rx = 'ds'
            elif a == 'P:d2e':
                conc = ('pdu', e2.pdata(3, 2, b''))
                mevs = ['Evt10c']
                self.rx, self.ncmd, self.ndat = 'idle', 0, 0
            else:
                conc = ('pdu', e2.pdata(3, 2, DATASET[7 * self.ndat:]))
                mevs = ['Evt10c']
                self.rx, self.ncmd, self.ndat = 'idle', 0, 0
        elif a == 'close':
            conc, mevs = ('close',), ['Evt17']
        elif a == 'gone':
            conc, mevs = ('gone',), []
            self.dead = True
        elif a == 'tick4':
            conc, mevs = ('tick', 4.0), []
            self.remaining -= 4.0
        elif a == 'expire':
            conc, mevs = ('tick', (self.remaining or 0) + 0.5), ['Evt18']
        elif a == 'U:assoc_rq':
            conc, mevs = ('user', ('assoc_rq',)), ['Evt1', 'Evt2']
        elif a == 'U:accept':
            conc, mevs = ('user', ('accept',)), ['Evt7']
        elif a == 'U:reject':
            conc, mevs = ('user', ('reject', 1, 1, 3)), ['Evt8']
        elif a == 'U:pdata1':
            conc, mevs = ('user', ('pdata', 1)), ['Evt9']
        elif a == 'U:pdata3':
            conc, mevs = ('user', ('pdata', 3)), ['Evt9', 'Evt9', 'Evt9']
        elif a == 'U:pdata1x2':
            # the same P-DATA-TF PDU object handed over twice (a user that repeats a message keeps no copy)
            conc, mevs = ('user', ('pdata_same',)), ['Evt9', 'Evt9']
        elif a == 'U:release_rq':
            conc, mevs = ('user', ('release_rq',)), ['Evt11']
        elif a == 'U:release_rp':
            conc, mevs = ('user', ('release_rp',)), ['Evt14']
        elif a == 'U:abort':
            conc, mevs = ('user', ('abort', 0, 3)), ['Evt15']
        else:
            raise common.HarnessError('unknown abstract event %r' % a)
        outs = []
        was_artim = self.m[2]
        for ev in mevs:
            row = self.delta.get(self.m, {})
            if ev not in row:
                if self.dead and self.m[3] != 'open':
                    continue        # what was queued behind the failed write meets a closed connection: nothing happens
                raise common.HarnessError('abstract event %s not enabled in model state %r' % (a, self.m))
            if self.dead and self.m[3] == 'open' and any(x.startswith('send:') for x in row[ev][0]) and 'Evt17' in row:
                # the write this action starts with fails: the provider learns that the connection is gone - that is the
                # transport-closed event in the state it was in, and nothing of the action itself happens
                ev = 'Evt17'
                outs.append('dead-write')
            o, nxt = row[ev]
            self.edges.append((self.m, ev))
            outs += list(o)
            self.m = nxt
        if self.m[2] and (not was_artim or any(o == 'artim:start' for o in outs)):
            self.remaining = 10.0
        if not self.m[2]:
            self.remaining = None
        return conc, outs

    def key(self):
        return (self.m, self.rx, self.ncmd, self.ndat, self.half, self.remaining, self.dead and self.m[3] == 'open')


def _expected_of(hist, role, delta):
    a = Abs(role, delta)
    conc, exp = [], []
    for ev in hist:
        c, o = a.apply(ev)
        conc.append(c)
        exp.append((o, a.m))
    return a, conc, exp


def _invariants(env, step, idx, viol, hist):
    st = step.get('state')
    if st is None:
        return
    sta = st + 1
    names = [w[0] for w in e2.summarize_wire(step['wire'])]
    if any(w in ('MALFORMED', 'TRAILING-BYTES') for w in names):
        viol.append(('c05:inv:malformed-output', 'bytes written to the transport are not well-formed PDUs: %r (history %r)' % (e2.summarize_wire(step['wire']), hist[:idx])))
    if sta == 1 and step['sock'] == 'open':
        viol.append(('c05:inv:idle-open', 'provider idle (Sta1) with the transport still open after history %r' % (hist[:idx],)))
    if step['timer'] != (sta in (2, 13)):
        viol.append(('c05:inv:artim:%s-in-Sta%d' % ('running' if step['timer'] else 'stopped', sta),
                     'ARTIM %s at a quiescent point in Sta%d after history %r' % ('running' if step['timer'] else 'stopped', sta, hist[:idx])))


def check_history(role, hist, delta, deviations=None, mpl=16384):
    """Run one history on a fresh provider; -> (violations, canonical state, abstract env, observation signature)."""
    a, conc, exp = _expected_of(hist, role, delta)
    env = e2.Env(role, conc, deviations=deviations, max_pdu_length=mpl).run()
    viol = []
    fin = env.final
    where = 'role=%s history=%r' % (role, hist)
    if fin['status'] in ('raised', 'hang', 'blocked-recv'):
        last = len(env.steps) - 1
        viol.append(('c05:loop-%s:%s' % (fin['status'], (fin['exc'] or '').split('(')[0]),
                     'provider loop %s (%s) at event #%d %r; %s' % (fin['status'], fin['exc'], last, hist[last - 1] if 0 < last <= len(hist) else None, where)))
    if fin.get('exit_sock') == 'open':
        viol.append(('c05:inv:exit-event-before-close', 'the loop-exited event was set while the transport was still open (%s)' % where))
    prev_state = None
    obs_sig = []
    over = False
    for i, st in enumerate(env.steps):
        _invariants(env, st, i, viol, hist)
        wire = e2.summarize_wire(st['wire'])
        sta = st['state'] + 1
        multi_pdu = 0 < i <= len(hist) and hist[i - 1].startswith('PP:')   # two PDUs in one step: lock-step comparison covers it
        if not deviations and not multi_pdu and any(w[0] == 'P-DATA-TF' for w in wire) and prev_state not in (6, 8):
            viol.append(('c05:inv:pdata-sent-outside-association', 'P-DATA-TF sent from Sta%s (%s)' % (prev_state, where)))
        if not deviations and not multi_pdu and any(x[0] == 'DIMSE' for x in st['inds']) and prev_state not in (6, 7):
            viol.append(('c05:inv:pdata-indicated-outside-association', 'DIMSE message indicated from Sta%s (%s)' % (prev_state, where)))
        if over and st['inds']:
            viol.append(('c05:inv:indication-after-end', 'indication %r after the association was over (%s, step %d)' % (st['inds'], where, i)))
        if prev_state in (1, 13) and sta in (1, 13) and i > 0:
            over = True
        obs_sig.append((tuple(w[0] for w in wire), tuple(x[0] for x in st['inds']), 'close' in st['log'], sta, st['timer'], st['sock']))
        if deviations:
            # loop order (network, then outgoing queue, then timer): once the peer's A-ABORT or its close is readable at a loop
            # head, nothing more is taken from the outgoing side except for events that were already queued at that head
            for d in st.get('devinfo', []):
                ending = d['ev'][0] == 'close' or (d['ev'][0] in ('pdu', 'bytes', 'bytes_close') and bytes(d['ev'][1][:1]) == b'\x07')
                if ending:
                    later = [w[0] for w in e2.summarize_wire(st['wire'][d['wire_len']:])].count('P-DATA-TF')
                    if later > d['pending']:
                        viol.append(('c05:inv:outgoing-taken-before-network', '%d P-DATA-TF PDUs were sent after the peer\'s %s had become readable '
                                     '(%d events were pending at that loop head) (%s)' % (later, 'close' if d['ev'][0] == 'close' else 'A-ABORT', d['pending'], where)))
            prev_state = sta
            continue
        # ---- lock-step with the model
        if i == 0:
            exp_m = Abs(role, delta).m
            if (sta, st['timer'], st['sock']) != (exp_m[0], exp_m[2], exp_m[3]) or wire or st['inds']:
                viol.append(('c05:start', 'after start-up the provider is in Sta%d timer=%s socket=%s wire=%r inds=%r; model: %r (%s)' % (
                    sta, st['timer'], st['sock'], wire, st['inds'], exp_m, where)))
        elif i <= len(hist) and st['ev'][0] not in ('idle', 'end'):
            outs, m = exp[i - 1]
            aev = hist[i - 1]
            tag = 'c05:%s@Sta%s' % (aev, prev_state)
            exp_wire = [o[5:].replace('(provider)', '') for o in outs if o.startswith('send:')]
            exp_ind = ['A-ABORT' if o[4:] == 'A-P-ABORT' else o[4:] for o in outs if o.startswith('ind:')]
            if [w[0] for w in wire] != exp_wire:
                viol.append((tag + ':wire', 'event %s in Sta%s: wire %r, model %r (%s)' % (aev, prev_state, wire, exp_wire, where)))
            elif aev in USER_PDATA and 'P-DATA-TF' in exp_wire:
                # what goes out is what the user handed over
                want = e2.summarize_wire(b''.join(p_.encode() for p_ in e2.make_primitive(USER_PDATA[aev])))
                got_pd = [w for w in wire if w[0] == 'P-DATA-TF']
                if len(got_pd) == len(want) and got_pd != want:
                    viol.append((tag + ':pdata-content', 'event %s in Sta%s: the user handed over %r, on the wire %r (%s)' % (aev, prev_state, want, got_pd, where)))
            elif 'send:A-ABORT(provider)' in outs and wire and wire[-1][1] != 2:
                viol.append((tag + ':abort-source', 'provider-initiated A-ABORT sent with source %r (%s)' % (wire[-1][1], where)))
            elif aev == 'U:abort' and wire and wire[0][1:] != (0, 3):
                viol.append((tag + ':abort-fields', 'user abort (0,3) sent as %r (%s)' % (wire[0], where)))
            elif aev == 'U:reject' and wire and wire[0][1:] != (1, 1, 3):
                viol.append((tag + ':rj-fields', 'user reject (1,1,3) sent as %r (%s)' % (wire[0], where)))
            if [x[0] for x in st['inds']] != exp_ind:
                viol.append((tag + ':indication', 'event %s in Sta%s: indications %r, model %r (%s)' % (aev, prev_state, st['inds'], exp_ind, where)))
            else:
                if aev.startswith('P:abort_p') and st['inds'] and st['inds'][0][0] == 'A-ABORT' and 'ind:A-ABORT' in outs and st['inds'][0][1:] != (2, 1):
                    viol.append((tag + ':abort-indication-fields', 'received A-ABORT (2,1) indicated as %r (%s)' % (st['inds'][0], where)))
                if aev.startswith('P:rj') and st['inds'] and st['inds'][0][0] == 'A-ASSOCIATE-RJ' and st['inds'][0][1:] != (2, 1, 3):
                    viol.append((tag + ':rj-indication-fields', 'received RJ (2,1,3) indicated as %r (%s)' % (st['inds'][0], where)))
                comps = [c for c in (aev[3:] if aev.startswith('PP:') else aev).replace('+close', '').split(',') if c in ('P:c3n', 'P:d2', 'P:d2e', 'P:c3d2')]
                for k, x in enumerate([y for y in st['inds'] if y[0] == 'DIMSE']):
                    base = comps[k] if k < len(comps) else None
                    want_len = {'P:c3n': None, 'P:d2': len(DATASET), 'P:c3d2': len(DATASET)}.get(base, 'any')
                    if base == 'P:d2e':
                        want_len = 'any'
                        if x[3] not in (7, 14, 21, 28):
                            viol.append((tag + ':dimse-content', 'message ended by an empty last fragment reassembled as %r (%s)' % (x, where)))
                    if x[1:3] != ('CStoreRQMessage', 3) or (want_len != 'any' and x[3] != want_len):
                        viol.append((tag + ':dimse-content', 'reassembled message %r, expected a C-STORE-RQ on context 3 with data set length %r (%s)' % (x, want_len, where)))
                    elif want_len != 'any':
                        # every message of the same shape must have the same complete content (command set + data set digest)
                        ref = _DIGESTS.setdefault(want_len, x[4])
                        if ref != x[4]:
                            viol.append((tag + ':dimse-digest', 'reassembled message content differs from the same message received earlier: %r (%s)' % (x, where)))
            if aev != 'close' and not aev.endswith('+close') and not aev.startswith('PP:') and 'dead-write' not in outs and \
                    ('close' in st['log']) != ('close' in outs):
                viol.append((tag + ':close', 'event %s in Sta%s: transport %s, model says %s (%s)' % (
                    aev, prev_state, 'closed' if 'close' in st['log'] else 'not closed', 'close' if 'close' in outs else 'keep', where)))
            if (sta, st['timer'], st['sock']) != (m[0], m[2], m[3]):
                viol.append((tag + ':state', 'event %s in Sta%s: provider now Sta%d timer=%s socket=%s; model Sta%d timer=%s conn=%s (%s)' % (
                    aev, prev_state, sta, st['timer'], st['sock'], m[0], m[2], m[3], where)))
        else:
            # idle / end step: nothing may happen
            if wire or st['inds'] or 'close' in st['log']:
                viol.append(('c05:idle-step-output', 'idle poll produced wire=%r inds=%r log=%r (%s)' % (wire, st['inds'], st['log'], where)))
        prev_state = sta
    if not deviations and fin['raw_pdu'] and not a.half:
        viol.append(('c05:leftover-bytes', '%d bytes left in the receive buffer (%s)' % (len(fin['raw_pdu']), where)))
    return viol, e2.canon(env), a, tuple(obs_sig)


def _set_tier(tier):
    global FRAG_BOUND, PP_SECOND
    if tier == 'thorough':
        FRAG_BOUND = 3
        PP_SECOND = None      # every peer PDU as second element of a two-PDU segment


def expand(args):
    """Worker: run all children of one frontier history; for every child, also run the deviation sweep of
    every grandchild (child + one more enabled event) restricted to the loop heads at which the child's last
    event is being processed (so that races with a multi-step event are covered even when the child itself
    reaches an already seen state)."""
    role, hist, dev_bound, dev_len = args
    common.import_repo()
    delta = _delta()
    a, conc0, _ = _expected_of(hist, role, delta)
    heads0 = e2.Env(role, conc0).run().nonquiescent_heads
    out = []
    for ev in a.enabled():
        child = hist + [ev]
        viol, canon, a2, sig = check_history(role, child, delta)
        ndev = 0
        if len(child) <= 5 and not viol and not ev.startswith('PP:'):
            # the same history on a provider configured without a limit of its own (maximum PDU length 0, the documented
            # "unlimited"): the protocol machine does not depend on it
            v0, canon0, _, sig0 = check_history(role, child, delta, mpl=0)
            ndev += 1
            viol = viol + [(s_ + ':unlimited', m_ + ' [provider configured with maximum PDU length 0]') for s_, m_ in v0]
            if not v0 and sig0 != sig:
                viol = viol + [('c05:unlimited-provider-differs', 'with maximum PDU length 0 the provider behaves differently: %r versus %r (role=%s history=%r)' % (
                    sig0, sig, role, child))]
        if len(child) < dev_len and not viol:
            for ev2 in a2.enabled(pairs=False):
                if ev2.endswith('+close'):
                    continue
                n, _, dviol = deviate((role, child + [ev2], dev_bound, heads0))
                ndev += n
                viol = viol + [(s, m) for s, m, _ in dviol]
        out.append((child, (canon, a2.key()), viol, sig, a2.edges[len(a.edges):], 1, ndev))
    # two environment events becoming visible at the same instant: one from the peer, one from the local user
    en = a.enabled()
    peers = [x for x in en if x.startswith('P:') and not x.endswith('+close') and x not in ('P:half', 'P:rest')] + [x for x in en if x == 'close']
    peers = [x for x in peers if not x.startswith('PP:')]
    users = [x for x in en if x.startswith('U:')]
    nsim = 0
    for pe in peers:
        for ue in users:
            nsim += 1
            v = check_simultaneous(role, hist, pe, ue, delta)
            if v:
                out.append((hist + [pe + '|' + ue], None, v, (), [], 0, 0))
    if nsim:
        out.append((hist, None, [], (), [], 0, nsim))
    return out


def check_simultaneous(role, hist, pe, ue, delta):
    """Peer event `pe` and user primitive `ue` become visible at the same loop head after `hist`; the aggregated
    observation must equal the model's outcome for one of the two orders."""
    a, conc0, _ = _expected_of(hist, role, delta)
    exps = []
    concs = None
    for first, second in ((pe, ue), (ue, pe)):
        b = a.clone()
        c1, o1 = b.apply(first)
        if second not in b.enabled():
            # the second event is no longer defined after the first (e.g. a user primitive after the peer's abort): ignored
            exps.append((o1, b.m))
            if first == pe:
                concs = [c1, a.clone().apply(ue)[0]]
            continue
        c2, o2 = b.apply(second)
        exps.append((o1 + o2, b.m))
        if first == pe:
            concs = [c1, c2]
    env = e2.Env(role, conc0 + [('multi', concs)]).run()
    fin = env.final
    steps = env.steps[len(hist) + 1:]
    wire = [w[0] for st in steps for w in e2.summarize_wire(st['wire'])]
    inds = [x for st in steps for x in st['inds']]
    last = env.steps[-1] if env.steps and 'state' in env.steps[-1] else {'state': fin['state'], 'timer': fin['timer'], 'sock': fin['sock']}
    obs = (wire, [x[0] for x in inds], (last['state'] + 1, last['timer'], last['sock']))
    match = False
    for outs, m in exps:
        ew = [o[5:].replace('(provider)', '') for o in outs if o.startswith('send:')]
        ei = ['A-ABORT' if o[4:] == 'A-P-ABORT' else o[4:] for o in outs if o.startswith('ind:')]
        if obs == (ew, ei, (m[0], m[2], m[3])):
            match = True
    if any(x[0] == 'DIMSE' and x[1:3] != ('CStoreRQMessage', 3) for x in inds):
        match = False
    if fin['status'] != 'quiescent-end' or not match:
        return [('c05:simultaneous:%s|%s@Sta%d' % (pe, ue, a.m[0]),
                 'peer event %s and user primitive %s visible at the same poll in Sta%d: status %s, observed %r (indications %r); the '
                 'protocol machine allows %r (either order) (role=%s history=%r)' % (
                     pe, ue, a.m[0], fin['status'] + (' ' + str(fin['exc']) if fin['exc'] else ''), obs, inds, exps, role, hist))]
    return []


def deviate(args):
    """All deviations (singles; pairs when bound >= 2) of one history at the non-quiescent loop heads beyond
    `min_head`: the next event is injected there instead of waiting for quiescence; invariants only."""
    role, hist, bound, min_head = args
    delta = _delta()
    n = 0
    _, conc, _ = _expected_of(hist, role, delta)
    env0 = e2.Env(role, conc).run()
    points = list(range(min_head + 1, env0.nonquiescent_heads + 1))
    combos = [(p,) for p in points]
    if bound >= 2:
        combos += list(itertools.combinations(points, 2))
    sigs = set()
    viols = []
    for c in combos:
        viol, canon, a2, sig = check_history(role, hist, delta, deviations={p: True for p in c})
        n += 1
        sigs.add(sig)
        for s, m in viol:
            viols.append((s + ':dev', m + ' [event injected at non-quiescent loop head(s) %r]' % (c,), {'role': role, 'hist': hist, 'dev': list(c)}))
    return n, len(sigs), viols


def nodedup(args):
    """Worker for the abstraction cross-check: every history below `prefix` up to `depth` events is executed WITHOUT
    state deduplication; returns the set of (canonical state, abstract state) keys reached and any violations."""
    role, prefix, depth = args
    common.import_repo()
    delta = _delta()
    keys = set()
    viols = []
    n = 0
    stack = [list(prefix)]
    while stack:
        hist = stack.pop()
        viol, canon, a, sig = check_history(role, hist, delta)
        n += 1
        keys.add((canon, a.key()))
        for s_, m in viol:
            viols.append((s_ + ':nodedup', m, {'role': role, 'hist': hist}))
        if len(hist) < depth and not viol:
            for ev in a.enabled(pairs=False):
                if not ev.endswith('+close'):
                    stack.append(hist + [ev])
    return n, keys, viols[:20]


_DELTA = None


def _delta():
    global _DELTA
    if _DELTA is None:
        _DELTA, _ = model.automaton(False)
    return _DELTA


def run_case(case):
    common.import_repo()
    delta = _delta()
    _set_tier(case.get('tier', 'quick'))
    if case.get('simultaneous'):
        pe, ue = case['simultaneous'].split('|')
        return {'viol': check_simultaneous(case['role'], case['hist'], pe, ue, delta), 'case': case}
    dev = {p: True for p in case.get('dev', [])} or None
    _set_tier(case.get('tier', 'quick'))
    viol, canon, a, sig = check_history(case['role'], case['hist'], delta, deviations=dev, mpl=case.get('mpl', 16384))
    if dev:
        viol = [(s + ':dev', m) for s, m in viol]
    if 'mpl' in case:
        ref = check_history(case['role'], case['hist'], delta)
        viol = [(s + ':unlimited', m) for s, m in viol]
        if not viol and ref[3] != sig:
            viol = [('c05:unlimited-provider-differs', 'with maximum PDU length 0 the provider behaves differently: %r versus %r' % (sig, ref[3]))]
    return {'viol': viol, 'case': case}


def main(tier, seed):
    common.import_repo()
    import multiprocessing
    rep = common.Report(ID, tier, seed, LEVEL)
    _set_tier(tier)
    delta, stats = model.automaton(False)
    global _DELTA
    _DELTA = delta
    max_depth = 14 if tier == 'quick' else 40
    dev_bound = 1 if tier == 'quick' else 2
    ctx = multiprocessing.get_context('fork')
    total_exec = 0
    dev_exec = 0
    dev_len = 6 if tier == 'quick' else 10
    seen_all = 0
    edges_cov = set()
    sigs = set()
    depth_closed = {}
    complete_hists = []
    with ctx.Pool(common.NPROC) as pool:
        for role in ('ac', 'rq'):
            seen = set()
            frontier = [[]]
            viol0, canon0, a0, sig0 = check_history(role, [], delta)
            for s, m in viol0:
                rep.add(common.Viol(s, m, {'role': role, 'hist': []}))
            seen.add((canon0, a0.key()))
            depth = 0
            while frontier and depth < max_depth:
                depth += 1
                nxt = []
                for res in pool.imap(expand, [(role, h, dev_bound, dev_len) for h in frontier], chunksize=4):
                    if not res:
                        continue
                    for child, key, viol, sig, new_edges, n, ndev in res:
                        total_exec += n
                        dev_exec += ndev
                        if key is None:
                            for s, m in viol:
                                rep.add(common.Viol(s, m, {'role': role, 'hist': child[:-1], 'simultaneous': child[-1], 'tier': tier}))
                            continue
                        sigs.add(sig[-2:] if len(sig) > 1 else sig)
                        edges_cov.update(new_edges)
                        for s, m in viol:
                            rep.add(common.Viol(s, m, dict({'role': role, 'hist': child, 'tier': tier}, **({'mpl': 0} if 'unlimited' in s else {}))))
                        if key not in seen:
                            seen.add(key)
                            if not viol:
                                nxt.append(child)
                            if len(rep.samples) < 4 and len(child) in (4, 7):
                                rep.sample({'role': role, 'history': child})
                complete_hists += [(role, h) for h in nxt]
                frontier = nxt
            depth_closed[role] = depth if not frontier else None
            seen_all += len(seen)
            if tier == 'thorough':
                # cross-check of the canonical-state abstraction: depth-4 sweep without deduplication
                a0 = Abs(role, delta)
                firsts = [[ev] for ev in a0.enabled(pairs=False) if not ev.endswith('+close')]
                nd_n = 0
                missing = 0
                for n, keys, viols in pool.imap(nodedup, [(role, f, 4) for f in firsts], chunksize=1):
                    nd_n += n
                    missing += len([k for k in keys if k not in seen])
                    for s_, m, case in viols:
                        rep.add(common.Viol(s_, m, case))
                rep.coverage.setdefault('nodedup_cross_check', {})[role] = {'histories_executed': nd_n, 'depth': 4,
                                                                           'states_not_found_by_dedup_search': missing}
                if missing:
                    raise common.HarnessError('canonical-state abstraction is unsound: %d states reached without deduplication were '
                                              'never reached by the deduplicating search (role %s)' % (missing, role))
    edges_cov.add(((1, 'ac', False, 'none'), 'Evt5'))   # taken by every acceptor run at start-up (checked at step 0)
    reachable_edges = set((k, ev) for k, row in delta.items() for ev in row)
    not_covered = sorted(reachable_edges - edges_cov)
    rep.coverage.update({
        'states': seen_all, 'transitions': total_exec, 'traces_validated_against_impl': total_exec,
        'deviation_and_simultaneous_executions': dev_exec, 'deviation_bound_completed': dev_bound,         'deviation_history_max_len': dev_len,
        'model_states': stats['model_states'], 'model_transitions': stats['model_transitions'],
        'model_edges_exercised': len(reachable_edges & edges_cov), 'model_edges_not_exercised': [repr(e) for e in not_covered],
        'fixpoint_depth': depth_closed, 'depth_cap': max_depth,
        'distinct_observation_vectors': len(sigs),
        'evaluations': total_exec + dev_exec, 'distinct_nontrivial': seen_all,
        'rule': 'BFS over histories of abstract environment events (peer PDUs of all 7 types, 5 P-DATA flavours in protocol order, '
                'unknown PDU, half PDU + rest, close, non-expiring 4 s advance, ARTIM expiry, every user primitive the model enables) '
                'for both roles; every history is replayed on a fresh real provider; states are deduplicated on the canonical '
                'provider state + abstract environment state; the search stops at its fixpoint (frontier empty) or at the depth cap; '
                'every peer PDU is also delivered with the peer\'s close already visible, and every (peer event, user primitive) pair enabled in a '
                'reached state is also made visible at the same poll (either order of the model accepted)',
        'tlc': stats, 'exhaustive': all(v is not None for v in depth_closed.values()),
    })
    rep.coverage['note_on_unexercised_edges'] = ('Sta4 is transient in this implementation (AE-1 and AE-2 run in consecutive loop '
                                                 'iterations), so Evt15/Evt17 in Sta4 cannot be injected at a quiescent point; C04 covers those cells')
    if not_covered:
        rep.notes.append('model edges never exercised: %r' % (not_covered,))
    rep.assumptions = ['environment bounds: <=1 half-delivered PDU outstanding, <=2 non-last command and data fragments per incoming '
                       'message, fragments in protocol order, time advances only while ARTIM runs',
                       'user primitives are injected only where the model (the standard) enables them',
                       'deviation runs (event injected at a non-quiescent loop head) are judged by the invariants only',
                       'canonical state = all instance attributes of provider/state machine/timer/decoder (asserted at start-up)']
    return rep
