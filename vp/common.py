"""Shared plumbing: import of the tree under test, parallel enumeration,
violation / known-finding reporting, replay files and evidence files."""
import hashlib
import importlib
import json
import multiprocessing
import os
import subprocess
import sys
import time
import traceback
import warnings

warnings.simplefilter('ignore')

VERIF = os.path.dirname(os.path.dirname(os.path.abspath(__file__)))
REPO = os.environ.get('VP_REPO', '/repo')
MAXV = int(os.environ.get("VP_MAXV", "8"))
NPROC = int(os.environ.get('VP_NPROC', '16'))
# mutant / scratch runs must not rewrite the committed evidence: they write next to the scratch tree
OUTDIR = os.path.join(REPO, '.vp_out') if os.environ.get('VP_NOEVIDENCE') else VERIF


class HarnessError(Exception):
    """The machinery (not the library) is broken: exit 2, never a verdict."""


def import_repo():
    """Put the tree under test first on sys.path and make sure it is the one imported."""
    if sys.path[0] != REPO:
        sys.path.insert(0, REPO)
    import pynetdicom2  # noqa
    real = os.path.realpath(pynetdicom2.__file__)
    if not real.startswith(os.path.realpath(REPO) + os.sep):
        raise HarnessError('pynetdicom2 imported from %s, not from %s' % (real, REPO))
    return pynetdicom2


def jdefault(o):
    if isinstance(o, (bytes, bytearray)):
        return {'__bytes__': bytes(o).hex()}
    if isinstance(o, (set, frozenset)):
        return sorted(o, key=repr)
    if isinstance(o, tuple):
        return list(o)
    return repr(o)


def jdump(o, **kw):
    return json.dumps(o, default=jdefault, **kw)


def unbytes(o):
    """Inverse of jdefault for bytes, applied recursively to a loaded JSON value."""
    if isinstance(o, dict):
        if set(o) == {'__bytes__'}:
            return bytes.fromhex(o['__bytes__'])
        return {k: unbytes(v) for k, v in o.items()}
    if isinstance(o, list):
        return [unbytes(v) for v in o]
    return o


def short(o, n=300):
    s = o if isinstance(o, str) else jdump(o)
    return s if len(s) <= n else s[:n] + '...(%d chars)' % len(s)


class Viol(object):
    """One violation: a stable signature (used for de-duplication and for matching the
    known-findings file), a human message and the replayable case."""
    __slots__ = ('sig', 'msg', 'case')

    def __init__(self, sig, msg, case):
        self.sig, self.msg, self.case = sig, msg, case

    def astuple(self):
        return (self.sig, self.msg, self.case)


def load_known(prop):
    path = os.path.join(VERIF, 'known_findings.json')
    if not os.path.exists(path):
        return {}
    with open(path) as fh:
        data = json.load(fh)
    out = {}
    for ent in data.get('findings', []):
        if ent.get('property') == prop and ent.get('status') == 'known':
            for sig in ent.get('signatures', [ent.get('signature')]):
                out[sig] = ent
    return out


class Report(object):
    """Collects results of one check run and turns them into stdout lines, replay files,
    the evidence file and the exit status."""

    def __init__(self, prop, tier, seed, level):
        self.prop, self.tier, self.seed, self.level = prop, tier, seed, level
        self.t0 = time.time()
        self.viols = {}      # sig -> Viol (first = simplest, enumeration is simplest-first)
        self.viol_counts = {}
        self.coverage = {}
        self.assumptions = []
        self.nontrivial = set()
        self.evaluations = 0
        self.samples = []
        self.exhaustive = True
        self.notes = []

    def add(self, viol):
        if isinstance(viol, tuple):
            viol = Viol(*viol)
        self.viol_counts[viol.sig] = self.viol_counts.get(viol.sig, 0) + 1
        if viol.sig not in self.viols:
            self.viols[viol.sig] = viol

    def sample(self, case, limit=5):
        if len(self.samples) < limit:
            self.samples.append(json.loads(jdump(case)))

    def finish(self):
        known = load_known(self.prop)
        unknown = []
        seen_known = set()
        for sig, v in self.viols.items():
            if sig in known:
                ent = known[sig]
                if id(ent) not in seen_known:
                    seen_known.add(id(ent))
                    print('KNOWN-FINDING: property=%s %s [%s]' % (self.prop, ent.get('what', ''), ent.get('id', sig)))
            else:
                unknown.append(v)
        os.makedirs(os.path.join(OUTDIR, 'replays'), exist_ok=True)
        for v in unknown[:MAXV]:
            if isinstance(v.case, dict) and v.case.get('_session'):
                v.case = shrink_session(*(runner_for(self.prop, v.case) + (v.case, v.sig)))
                if v.case.get('_session'):
                    v.msg += ' [only after %d earlier case(s) in the same process: %s]' % (
                        len(v.case['_session']), short(v.case['_session'][-1], 160))
            h = hashlib.sha1(v.sig.encode()).hexdigest()[:10]
            path = os.path.join(OUTDIR, 'replays', '%s-%s.json' % (self.prop, h))
            modname, fname = runner_for(self.prop, v.case)
            unit_test = (
                "# plain test: the recorded case (one execution, no exploration) must not show the recorded violation\n"
                "import json, sys\nsys.path.insert(0, '/verif')\nfrom vp import common\ncommon.import_repo()\n"
                "import importlib\nrun = getattr(importlib.import_module(%r), %r)\n"
                "data = json.load(open(%r))\ncase = common.unbytes(data['case'])\n"
                "for earlier in (case.pop('_session', None) or []):\n    run(earlier)      # history that has to precede it in the same process\n"
                "found = [m for s, m in run(case)['viol'] if s == data['signature']]\n"
                "assert not found, found[0]\n" % (modname, fname, path))
            with open(path, 'w') as fh:
                fh.write(jdump({'property': self.prop, 'signature': v.sig, 'message': v.msg,
                                'count': self.viol_counts[v.sig], 'case': v.case,
                                'replay': './check %s --replay %s' % (self.prop, path), 'unit_test': unit_test}, indent=1))
            print('  %s: %s' % (v.sig, short(v.msg, 400)))
            print('VIOLATION property=%s replay=%s' % (self.prop, path))
        if len(unknown) > MAXV:
            print('  ... and %d more distinct violation signatures' % (len(unknown) - MAXV))
        cov = dict(self.coverage)
        cov.setdefault('evaluations', self.evaluations)
        cov.setdefault('distinct_nontrivial', len(self.nontrivial))
        cov.setdefault('samples', self.samples or ['(none)'])
        cov.setdefault('exhaustive', self.exhaustive)
        for k in ('states', 'transitions'):
            if k in cov and isinstance(cov[k], int) and cov[k] < 1:
                # on a tree that fails before anything comparable is reached the distinct-state count comes out 0: what was
                # executed is still what was explored
                cov[k] = max(1, int(cov.get('evaluations') or self.evaluations or 1))
                cov['note_' + k] = 'no execution reached a comparable state on this tree; number of executions reported instead'
        cov['known_finding_signatures_hit'] = sorted(s for s in self.viols if s in known)
        cov['unlisted_violation_signatures'] = sorted(v.sig for v in unknown)[:50]
        ev = {'property_id': self.prop, 'tier': self.tier, 'seed': self.seed, 'level': self.level,
              'coverage': cov, 'assumptions': self.assumptions,
              'wall_s': round(time.time() - self.t0, 3), 'violations': len(unknown)}
        os.makedirs(os.path.join(OUTDIR, 'evidence'), exist_ok=True)
        path = os.path.join(OUTDIR, 'evidence', '%s.json' % self.prop)
        with open(path, 'w') as fh:
            fh.write(jdump(ev, indent=1))
        validate_evidence(path)
        print('%s tier=%s seed=%d: evaluations=%d distinct_nontrivial=%d violations=%d known=%d wall=%.1fs %s' % (
            self.prop, self.tier, self.seed, cov['evaluations'], cov['distinct_nontrivial'],
            len(unknown), len(seen_known), ev['wall_s'],
            ' '.join('%s=%s' % (k, cov[k]) for k in ('states', 'transitions', 'traces_validated_against_impl',
                                                      'schedules', 'distinct_outcomes') if k in cov)))
        return 1 if unknown else 0


def validate_evidence(path):
    schema = '/root/.vp/EVIDENCE.schema.json'
    if not os.path.exists(schema) or not os.path.exists('/usr/local/bin/python3-vt'):
        return
    code = ("import json,sys,jsonschema;"
            "jsonschema.validate(json.load(open(sys.argv[1])),json.load(open(sys.argv[2])))")
    res = subprocess.run(['python3-vt', '-c', code, path, schema], capture_output=True, text=True)
    if res.returncode != 0:
        raise HarnessError('evidence file %s does not validate: %s' % (path, res.stderr[-800:]))


# ---------------------------------------------------------------------------
# parallel enumeration

_worker_fn = None
_HISTORY = []          # cases this (worker) process has run so far
HISTORY_CAP = 3000


def _call_chunk(args):
    modname, fname, chunk = args
    mod = importlib.import_module(modname)
    fn = getattr(mod, fname)
    out = []
    for idx, case in enumerate(chunk):
        try:
            res = fn(case)
            if _HISTORY and isinstance(res, dict) and res.get('viol') and isinstance(res.get('case'), dict):
                # cases run one after the other in long-lived worker processes: whatever the library keeps between calls
                # is part of the history of this violation, so the worker's history goes into the replay (and is
                # shrunk to the case alone, or one earlier case + the case, when that reproduces it - see Report.finish)
                res['case'] = dict(res['case'], _session=list(_HISTORY[-HISTORY_CAP:]))
            out.append(res)
            _HISTORY.append(case)
        except HarnessError:
            raise
        except BaseException as exc:
            tb = traceback.extract_tb(exc.__traceback__)
            last = tb[-1] if tb else None
            lib = os.path.join(os.path.realpath(REPO), 'pynetdicom2') + os.sep
            if last is not None and os.path.realpath(last.filename).startswith(lib) and isinstance(exc, Exception):
                # the library itself raised where the unchanged tree does not: report as a violation of the
                # property under check (signature names the raising function), not as a harness error
                out.append({'viol': [('crash:%s:%s:%s' % (modname.split('.')[-1], type(exc).__name__, last.name),
                                      'library raised %r in %s:%d (%s) during case %s' % (
                                          exc, os.path.basename(last.filename), last.lineno, last.name, short(case)))],
                            'case': case, 'key': None})
                continue
            # a crash of the harness itself
            raise HarnessError('harness crashed on case %s:\n%s' % (short(case), traceback.format_exc()))
    return out


def _in_child(fn, args):
    """fn(args) in a freshly forked child of this process; the (picklable) result, HarnessError on any failure."""
    import pickle
    r, w = os.pipe()
    sys.stdout.flush()
    pid = os.fork()
    if pid == 0:
        code = 0
        try:
            os.close(r)
            try:
                out = ('ok', fn(args))
            except HarnessError as exc:
                out = ('harness', str(exc))
            except BaseException:  # noqa
                out = ('harness', 'unexpected exception in a worker:\n' + traceback.format_exc())
            with os.fdopen(w, 'wb') as fh:
                fh.write(pickle.dumps(out))
        except BaseException:  # noqa
            code = 3
        finally:
            os._exit(code)
    os.close(w)
    with os.fdopen(r, 'rb') as fh:
        data = fh.read()
    _, status = os.waitpid(pid, 0)
    if not data:
        raise HarnessError('worker process died without a result (wait status %d)' % status)
    kind, val = pickle.loads(data)
    if kind != 'ok':
        raise HarnessError(val)
    return val


def _call_chunk_isolated(args):
    return _in_child(_call_chunk, args)


def _call_session(args):
    modname, fname, cases = args
    res = None
    for c in cases:
        m, f = (('vp.pairs', 'run_case') if isinstance(c, dict) and 'pair' in c else (modname, fname))
        res = getattr(importlib.import_module(m), f)(c)
    return res


def run_isolated(modname, fname, cases):
    """Run fn over `cases` one after the other in one freshly forked process; the result of the last one."""
    return _in_child(_call_session, (modname, fname, list(cases)))


def runner_for(prop, case):
    """(module, function) that executes `case` of property `prop`: operation pairs (engine E4) have a runner of their own."""
    if isinstance(case, dict) and 'pair' in case:
        return 'vp.pairs', 'run_case'
    return 'vp.checks.%s' % prop.lower(), 'run_case'


def shrink_session(modname, fname, case, sig):
    """`case` violated `sig` after the cases in case['_session'] had run in the same process.  Find the shortest history
    that still shows it: the case alone, else one earlier case + the case, else the whole recorded history."""
    session = case.get('_session') or []
    bare = {k: v for k, v in case.items() if k != '_session'}

    def shows(hist):
        try:
            r = run_isolated(modname, fname, hist + [bare])
        except Exception:
            return False
        return any(s == sig for s, _ in (r or {}).get('viol', ()))
    if shows([]):
        return bare
    for c in list(reversed(session))[:48]:
        if shows([c]):
            return dict(bare, _session=[c])
    if not shows(session):
        # not reproducible from the recorded history either: report it with the history, the replay will say so
        return case
    # bisect the history: shortest suffix that still shows it
    lo, hi = 0, len(session)          # session[lo:] shows it; find the largest lo
    while hi - lo > 1:
        mid = (lo + hi) // 2
        if shows(session[mid:]):
            lo = mid
        else:
            hi = mid
    if shows([session[lo]]):          # the first case of the shortest suffix is needed; often it is also enough
        return dict(bare, _session=[session[lo]])
    return dict(bare, _session=session[lo:])


def chunked(it, n):
    buf = []
    for x in it:
        buf.append(x)
        if len(buf) >= n:
            yield buf
            buf = []
    if buf:
        yield buf


def pmap(modname, fname, cases, chunk=200, nproc=None):
    """Run module.fname(case) for every case in worker processes (fork), yielding results in
    enumeration order."""
    nproc = nproc or NPROC
    # (a fresh process per chunk would isolate chunks from each other, but 16 concurrently forking workers spend their time
    # in copy-on-write faults here: 25x slower.  Workers are long-lived; a violation carries its worker's history instead.)
    if nproc <= 1:
        for ch in chunked(cases, chunk):
            for r in _call_chunk((modname, fname, ch)):
                yield r
        return
    ctx = multiprocessing.get_context('fork')
    with ctx.Pool(nproc) as pool:
        for res in pool.imap(_call_chunk, ((modname, fname, ch) for ch in chunked(cases, chunk))):
            for r in res:
                yield r


def tier_seed(argv):
    tier = os.environ.get('VERIF_TIER', 'quick')
    replay = None
    i = 0
    rest = []
    while i < len(argv):
        if argv[i] == '--tier':
            tier = argv[i + 1]
            i += 2
        elif argv[i] == '--replay':
            replay = argv[i + 1]
            i += 2
        else:
            rest.append(argv[i])
            i += 1
    if tier not in ('quick', 'thorough'):
        raise HarnessError('bad tier %r' % tier)
    seed = int(os.environ.get('VERIF_SEED', '0') or 0)
    return tier, seed, replay, rest
