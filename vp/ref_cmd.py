"""Independent reader for PS3.7 command sets (implicit VR little endian, group 0000)."""


class CmdError(Exception):
    pass


# PS3.7 E.1 command dictionary: element -> (keyword, VR)
CMD_DICT = {
    0x0000: ('CommandGroupLength', 'UL'), 0x0002: ('AffectedSOPClassUID', 'UI'), 0x0003: ('RequestedSOPClassUID', 'UI'),
    0x0100: ('CommandField', 'US'), 0x0110: ('MessageID', 'US'), 0x0120: ('MessageIDBeingRespondedTo', 'US'),
    0x0600: ('MoveDestination', 'AE'), 0x0700: ('Priority', 'US'), 0x0800: ('CommandDataSetType', 'US'),
    0x0900: ('Status', 'US'), 0x0901: ('OffendingElement', 'AT'), 0x0902: ('ErrorComment', 'LO'),
    0x0903: ('ErrorID', 'US'), 0x1000: ('AffectedSOPInstanceUID', 'UI'), 0x1001: ('RequestedSOPInstanceUID', 'UI'),
    0x1002: ('EventTypeID', 'US'), 0x1005: ('AttributeIdentifierList', 'AT'), 0x1008: ('ActionTypeID', 'US'),
    0x1020: ('NumberOfRemainingSuboperations', 'US'), 0x1021: ('NumberOfCompletedSuboperations', 'US'),
    0x1022: ('NumberOfFailedSuboperations', 'US'), 0x1023: ('NumberOfWarningSuboperations', 'US'),
    0x1030: ('MoveOriginatorApplicationEntityTitle', 'AE'), 0x1031: ('MoveOriginatorMessageID', 'US'),
}

# PS3.7 E.1 / 9.3 / 10.3: command field codes
COMMAND_FIELD = {
    'CStoreRQMessage': 0x0001, 'CStoreRSPMessage': 0x8001, 'CGetRQMessage': 0x0010, 'CGetRSPMessage': 0x8010,
    'CFindRQMessage': 0x0020, 'CFindRSPMessage': 0x8020, 'CMoveRQMessage': 0x0021, 'CMoveRSPMessage': 0x8021,
    'CEchoRQMessage': 0x0030, 'CEchoRSPMessage': 0x8030, 'NEventReportRQMessage': 0x0100,
    'NEventReportRSPMessage': 0x8100, 'NGetRQMessage': 0x0110, 'NGetRSPMessage': 0x8110, 'NSetRQMessage': 0x0120,
    'NSetRSPMessage': 0x8120, 'NActionRQMessage': 0x0130, 'NActionRSPMessage': 0x8130, 'NCreateRQMessage': 0x0140,
    'NCreateRSPMessage': 0x8140, 'NDeleteRQMessage': 0x0150, 'NDeleteRSPMessage': 0x8150, 'CCancelRQMessage': 0x0FFF,
}


def read(data):
    """-> list of (group, element, value_length, value_bytes); raises CmdError if not element-aligned."""
    out = []
    i = 0
    while i < len(data):
        if len(data) - i < 8:
            raise CmdError('trailing %d bytes do not form an element header' % (len(data) - i))
        grp = int.from_bytes(data[i:i + 2], 'little')
        elm = int.from_bytes(data[i + 2:i + 4], 'little')
        ln = int.from_bytes(data[i + 4:i + 8], 'little')
        if ln == 0xFFFFFFFF:
            raise CmdError('undefined length in command set')
        if i + 8 + ln > len(data):
            raise CmdError('element (%04X,%04X) length %d exceeds the command set' % (grp, elm, ln))
        out.append((grp, elm, ln, data[i + 8:i + 8 + ln]))
        i += 8 + ln
    return out


def value(elems, elm):
    """Interpreted value of element (0000,elm) or None."""
    for g, e, ln, v in elems:
        if g == 0 and e == elm:
            vr = CMD_DICT.get(e, (None, 'UN'))[1]
            if vr == 'US':
                return int.from_bytes(v, 'little') if ln == 2 else ('bad-US-length', ln)
            if vr == 'UL':
                return int.from_bytes(v, 'little') if ln == 4 else ('bad-UL-length', ln)
            if vr in ('UI',):
                return v.rstrip(b'\0').decode('ascii', 'replace')
            if vr in ('AE', 'LO'):
                return v.decode('ascii', 'replace').strip(' ')
            return v
    return None


def well_formed(data, expect_field=None, has_dataset=None):
    """List of problems of a transmitted command set (empty = well formed)."""
    problems = []
    try:
        elems = read(data)
    except CmdError as exc:
        return ['not parseable as implicit VR little endian elements: %s' % exc]
    if not elems:
        return ['empty command set']
    g, e, ln, v = elems[0]
    if (g, e) != (0, 0):
        problems.append('first element is (%04X,%04X), not (0000,0000)' % (g, e))
    elif ln != 4:
        problems.append('group length element has length %d' % ln)
    else:
        declared = int.from_bytes(v, 'little')
        actual = len(data) - 12
        if declared != actual:
            problems.append('CommandGroupLength=%d but %d bytes follow the element' % (declared, actual))
    tags = [(g, e) for g, e, _, _ in elems]
    if any(t[0] != 0 for t in tags):
        problems.append('element outside group 0000: %r' % [t for t in tags if t[0] != 0][:3])
    if any(tags[i] >= tags[i + 1] for i in range(len(tags) - 1)):
        problems.append('tags not strictly ascending: %s' % ' '.join('%04X' % t[1] for t in tags))
    odd = [(e, ln) for _, e, ln, _ in elems if ln % 2]
    if odd:
        problems.append('odd value length: %r' % odd[:3])
    cf = value(elems, 0x0100)
    if expect_field is not None and cf != expect_field:
        problems.append('CommandField=%r, expected 0x%04X' % (cf, expect_field))
    dst = value(elems, 0x0800)
    if dst is None or isinstance(dst, tuple):
        problems.append('CommandDataSetType missing or malformed (%r)' % (dst,))
    elif has_dataset is not None and (dst == 0x0101) != (not has_dataset):
        problems.append('CommandDataSetType=0x%04X but %s data-set fragments follow' % (dst, 'some' if has_dataset else 'no'))
    return problems
