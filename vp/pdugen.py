"""Bounded-exhaustive generator of PDU values (as reference trees, see ref_pdu) plus the two
bridges between trees and pynetdicom2 objects: from_tree (public constructors) and to_tree
(field extraction).  Used by C01, C02 and as PDU factory by the provider harnesses."""
import itertools

APP_CTX = '1.2.840.10008.3.1.1.1'
IMPLICIT = '1.2.840.10008.1.2'
EXPLICIT = '1.2.840.10008.1.2.1'
BIGEND = '1.2.840.10008.1.2.2'
VERIF_SOP = '1.2.840.10008.1.1'


def uid_of_len(n, salt=1):
    base = ('%d.2.840.10008.5.1.4.1.1.%d.' % (salt, salt)) + '1234567890.' * 8
    s = base[:n]
    if s.endswith('.') and n > 0:
        s = s[:-1] + '7'
    return s


def text_of_len(n):
    return ('PYNETDICOM_VERIF_0123456789')[:n]


# --------------------------------------------------------------------------- sub-item instances

def sub_instances():
    """kind -> list of sub-item trees; the first one is the kind's default instance."""
    K = {}
    K['ML'] = [{'t': 0x51, 'res': 0, 'max': m} for m in (16384, 0, 1, 2 ** 31, 2 ** 32 - 1)] + \
              [{'t': 0x51, 'res': 0xFF, 'max': 65536}]
    K['ICU'] = [{'t': 0x52, 'res': 0, 'uid': uid_of_len(n)} for n in (24, 0, 1, 2, 63, 64)] + \
               [{'t': 0x52, 'res': 1, 'uid': uid_of_len(9)}]
    K['IVN'] = [{'t': 0x55, 'res': 0, 'name': text_of_len(n)} for n in (10, 0, 1, 2, 15, 16)] + \
               [{'t': 0x55, 'res': 0x80, 'name': 'V1'}]
    K['ASYNC'] = [{'t': 0x53, 'res': 0, 'invoked': a, 'performed': b}
                  for a, b in ((1, 1), (0, 0), (0, 1), (0x8000, 2), (0xFFFF, 0xFFFF), (3, 0xFFFF))] + \
                 [{'t': 0x53, 'res': 7, 'invoked': 5, 'performed': 6}]
    K['ROLE'] = [{'t': 0x54, 'res': 0, 'uid': uid_of_len(n), 'scu': a, 'scp': b}
                 for n, a, b in ((17, 1, 0), (0, 0, 0), (1, 0, 1), (2, 1, 1), (63, 1, 0), (64, 255, 255), (18, 0, 1))] + \
                [{'t': 0x54, 'res': 9, 'uid': uid_of_len(11), 'scu': 1, 'scp': 1}]
    K['EXT'] = [{'t': 0x56, 'res': 0, 'uid': uid_of_len(n), 'info': bytes(range(1, m + 1)) if m < 200 else bytes(m)}
                for n, m in ((17, 3), (0, 0), (1, 0), (2, 1), (63, 2), (64, 255), (17, 0), (18, 6), (25, 1))] + \
               [{'t': 0x56, 'res': 3, 'uid': uid_of_len(12), 'info': b'\x51\x00\x00\x04'}]
    K['UID58'] = [{'t': 0x58, 'res': 0, 'idtype': t, 'resp': r, 'primary': p, 'secondary': s}
                  for t, r, p, s in ((2, 0, b'user', b'secret'), (1, 0, b'u', b''), (1, 1, b'', b''),
                                     (2, 1, 'müller'.encode('utf8'), 'päss'.encode('utf8')),
                                     (3, 0, b'kerberos-ticket-' + b'k' * 300, b''), (4, 1, b'<saml/>', b''),
                                     (5, 0, b'jwt.jwt.jwt', b''), (255, 255, b'x', b'y'))] + \
                 [{'t': 0x58, 'res': 1, 'idtype': 2, 'resp': 0, 'primary': b'a', 'secondary': b'b'}]
    K['UID59'] = [{'t': 0x59, 'res': 0, 'response': bytes((65 + i % 26) for i in range(n))} for n in (5, 0, 1, 2, 300)] + \
                 [{'t': 0x59, 'res': 0, 'response': '<saml:Réponse who="Zoë €"/>'.encode('utf8')}] + \
                 [{'t': 0x59, 'res': 2, 'response': b'ok'}]
    K['GEN'] = [{'t': t, 'res': 0, 'data': d}
                for t, d in ((0x57, b'\x00\x03abc'), (0x57, b''), (0x5A, b'\x01'), (0xFF, b'zz'),
                             (0x60, bytes(255)), (0x05, b'test data'))] + \
               [{'t': 0x5B, 'res': 0x11, 'data': b'q'}]
    return K


KINDS = ['ML', 'ICU', 'IVN', 'ASYNC', 'ROLE', 'EXT', 'UID58', 'UID59', 'GEN']


def ui(subs, res=0):
    return {'t': 0x50, 'res': res, 'subs': list(subs)}


def app(name=APP_CTX, res=0):
    return {'t': 0x10, 'res': res, 'name': name}


def pcrq(cid=1, abs_name=VERIF_SOP, ts=(IMPLICIT,), res=(0, 0, 0, 0), sres=0):
    return {'t': 0x20, 'res1': res[0], 'id': cid, 'res2': res[1], 'res3': res[2], 'res4': res[3],
            'abs': {'res': sres, 'name': abs_name}, 'ts': [{'res': sres, 'name': t} for t in ts]}


def pcac(cid=1, result=0, ts=IMPLICIT, res=(0, 0, 0), sres=0):
    return {'t': 0x21, 'res1': res[0], 'id': cid, 'res2': res[1], 'result': result, 'res3': res[2],
            'ts': {'res': sres, 'name': ts}}


def assoc(pdu, items, called='CALLED', calling='CALLING', version=1, res1=0, res2=0, res3=b'\0' * 32):
    return {'pdu': pdu, 'res1': res1, 'version': version, 'res2': res2, 'called': called, 'calling': calling,
            'res3': res3, 'items': list(items)}


def rj(result, source, reason, res1=0, res2=0):
    return {'pdu': 3, 'res1': res1, 'res2': res2, 'result': result, 'source': source, 'reason': reason}


def release(pdu, res1=0, res2=0):
    return {'pdu': pdu, 'res1': res1, 'res2': res2}


def abort(source, reason, res=(0, 0, 0)):
    return {'pdu': 7, 'res1': res[0], 'res2': res[1], 'res3': res[2], 'source': source, 'reason': reason}


def pdata(pdvs, res=0):
    return {'pdu': 4, 'res': res, 'pdvs': [{'id': i, 'data': d} for i, d in pdvs]}


def payload(n, salt=0):
    """n bytes of data_value (first byte = message control header 0..3)."""
    if n == 0:
        return b''
    return bytes([salt & 3]) + bytes((salt * 7 + i * 13 + 5) & 0xFF for i in range(n - 1))


# --------------------------------------------------------------------------- enumeration

def trees(tier):
    """Yields (label, tree) simplest-first.  Everything inside the declared grids is enumerated."""
    thorough = tier == 'thorough'
    K = sub_instances()
    g8 = (0, 1, 128, 255)
    # 1. fixed-layout PDUs
    for r, s, d in itertools.product(g8, g8, g8):
        yield 'rj', rj(r, s, d)
    for r, s, d in itertools.product((1, 2), (1, 2, 3), range(0, 11)):
        yield 'rj-std', rj(r, s, d)
    yield 'rj-res', rj(1, 1, 1, res1=255, res2=255)
    yield 'rj-res', rj(2, 3, 2, res1=1, res2=128)
    for p in (5, 6):
        for a, b in itertools.product(g8, (0, 1, 2 ** 31, 2 ** 32 - 1)):
            yield 'release', release(p, a, b)
    for s, d in itertools.product(g8 + (2,), g8 + (2, 3, 4, 5, 6)):
        yield 'abort', abort(s, d)
    for res in itertools.product((0, 255), repeat=3):
        yield 'abort-res', abort(2, 1, res)
    # 2. user information: singles, every ordered adjacency, each kind last, rotations
    canon_pc = {1: pcrq(), 2: pcac()}
    for kind in KINDS:
        for inst in K[kind]:
            for p in (1, 2):
                yield 'ui-single-' + kind, assoc(p, [app(), canon_pc[p], ui([inst])])
    for k1, k2 in itertools.product(KINDS, KINDS):
        combos = [(a, K[k2][0]) for a in K[k1]] + [(K[k1][0], b) for b in K[k2][1:]]
        if thorough:
            combos = list(itertools.product(K[k1], K[k2]))
        for n, (a, b) in enumerate(combos):
            p = 1 + (n % 2)
            yield 'ui-pair-%s-%s' % (k1, k2), assoc(p, [app(), canon_pc[p], ui([a, b])])
            if thorough or n == 0:
                # the pair in the middle of a longer list (so that k2 is not last either)
                yield 'ui-pair3-%s-%s' % (k1, k2), assoc(3 - p, [app(), canon_pc[3 - p], ui([K['ML'][0], a, b, K['ICU'][0]])])
    for rot in range(len(KINDS)):
        order = KINDS[rot:] + KINDS[:rot]
        for which in (0, -1, 2):
            yield 'ui-rot', assoc(1, [app(), pcrq(), ui([K[k][which % len(K[k])] for k in order])])
            yield 'ui-rot', assoc(2, [app(), pcac(), ui([K[k][which % len(K[k])] for k in reversed(order)])])
    if thorough:
        for k1, k2, k3 in itertools.product(KINDS, repeat=3):
            for i1, i2, i3 in itertools.product((0, -1, 1), repeat=3):
                yield 'ui-triple', assoc(1 + (i1 + i2 + i3) % 2, [app(), canon_pc[1 + (i1 + i2 + i3) % 2], ui([K[k1][i1], K[k2][i2], K[k3][i3]])])
        for ks in itertools.product(KINDS, repeat=4):
            yield 'ui-quad', assoc(2, [app(), pcac(), ui([K[k][0] for k in ks])])
    yield 'ui-empty', assoc(1, [app(), pcrq(), ui([])])
    yield 'ui-res', assoc(2, [app(), pcac(), ui([K['ML'][0]], res=0xAB)])
    # 3. variable item lists: every list of length 0..3 (4 thorough) over {APP, PC, UI}, both PDU types
    std_ui = ui([K['ML'][0], K['ICU'][0]])
    big_ui = ui([K['ML'][0], K['ICU'][0], K['IVN'][0], K['ROLE'][0], K['EXT'][0], K['UID58'][0]])
    for p in (1, 2):
        alpha = {'A': app(), 'P': canon_pc[p], 'U': std_ui}
        for n in range(0, 6 if thorough else 4):
            for combo in itertools.product('APU', repeat=n):
                items = []
                pid = 1
                for c in combo:
                    it = dict(alpha[c])
                    if c == 'P':
                        it['id'] = pid
                        pid += 2
                    items.append(it)
                yield 'items-' + ''.join(combo), assoc(p, items)
        # canonical order with many presentation contexts, and deviations from it
        for npc in (2, 5, 128):
            pcs = [dict(canon_pc[p], id=(2 * i + 1) % 256) for i in range(npc)]
            yield 'items-canon-%d' % npc, assoc(p, [app()] + pcs + [big_ui])
            yield 'items-ui-first-%d' % npc, assoc(p, [big_ui, app()] + pcs)
            yield 'items-ui-mid-%d' % npc, assoc(p, [app()] + pcs[:1] + [big_ui] + pcs[1:])
        # an empty user information item in every position of a longer list
        for combo in ('EAP', 'AEP', 'APE', 'EU', 'UE', 'EE', 'EPU'):
            alpha2 = dict(alpha, E=ui([]))
            yield 'items-emptyui-' + combo, assoc(p, [dict(alpha2[c]) for c in combo])
    # 4. presentation contexts
    abs_lens = (17, 0, 1, 2, 63, 64)
    ts_sets = ((), (IMPLICIT,), (EXPLICIT, IMPLICIT), (IMPLICIT, EXPLICIT, BIGEND), (uid_of_len(64), uid_of_len(1, 2), ''))
    for cid in (1, 3, 127, 255, 0, 2):
        for tss in ts_sets:
            for al in (abs_lens if (thorough or cid in (1, 255)) else abs_lens[:2]):
                yield 'pcrq', assoc(1, [app(), pcrq(cid, uid_of_len(al), tss), std_ui])
        for result in range(0, 5):
            for tsn in (IMPLICIT, '', uid_of_len(64)):
                yield 'pcac', assoc(2, [app(), pcac(cid, result, tsn), std_ui])
    yield 'pcac-255', assoc(2, [app(), pcac(5, 255, ''), std_ui])
    yield 'pcrq-res', assoc(1, [app(), pcrq(1, VERIF_SOP, (IMPLICIT, EXPLICIT), res=(1, 2, 3, 4), sres=5), std_ui])
    yield 'pcac-res', assoc(2, [app(), pcac(1, 0, IMPLICIT, res=(1, 2, 3), sres=5), std_ui])
    for pair in itertools.product(ts_sets[1:4], repeat=2):
        yield 'pcrq-two', assoc(1, [app(), pcrq(1, VERIF_SOP, pair[0]), pcrq(3, uid_of_len(30), pair[1]), std_ui])
    # 5. fixed header fields of A-ASSOCIATE: AE titles of every length, versions, reserved fields, app ctx names
    for n in range(0, 17):
        for m in ((16 - n, n) if not thorough else range(0, 17)):
            for p in (1, 2):
                yield 'ae-title', assoc(p, [app(), canon_pc[p], std_ui], called=text_of_len(n), calling=text_of_len(m)[::-1])
    yield 'ae-inner-space', assoc(1, [app(), pcrq(), std_ui], called='A B', calling='STORE SCP 1')
    for v in (0, 1, 2, 0x8000, 0xFFFF):
        for r1, r2 in ((0, 0), (255, 0xFFFF), (1, 1)):
            yield 'assoc-hdr', assoc(1, [app(), pcrq(), std_ui], version=v, res1=r1, res2=r2)
    yield 'assoc-res3', assoc(2, [app(), pcac(), std_ui], res3=bytes(range(1, 33)))
    yield 'assoc-res3', assoc(1, [app(), pcrq(), std_ui], res3=b'\xff' * 32)
    for n in (0, 1, 2, 63, 64):
        yield 'appctx', assoc(1, [app(uid_of_len(n), res=n & 1), pcrq(), std_ui])
    # 6. P-DATA-TF
    lens = (1, 2, 3, 256, 257, 65536, 65537, 70001)
    small = (1, 2, 256)
    for cid in (1, 3, 255):
        for a in lens:
            yield 'pdata-1', pdata([(cid, payload(a, cid))])
    for a, b in itertools.product(lens, lens):
        yield 'pdata-2', pdata([(1, payload(a, 1)), (3, payload(b, 2))])
    for combo in itertools.product(small, repeat=3):
        yield 'pdata-3', pdata([(1 + 2 * i, payload(n, i)) for i, n in enumerate(combo)])
    for combo in itertools.product(small, repeat=4):
        yield 'pdata-4', pdata([(255 - 2 * i, payload(n, i + 3)) for i, n in enumerate(combo)])
    if thorough:
        for combo in itertools.product((1, 2, 65536, 70001), repeat=3):
            yield 'pdata-3big', pdata([(1, payload(n, i)) for i, n in enumerate(combo)])
        for combo in itertools.product((1, 2, 3, 255, 256, 257), repeat=3):
            yield 'pdata-3mid', pdata([(3, payload(n, i)) for i, n in enumerate(combo)])
        for combo in itertools.product((1, 2, 256, 65536), repeat=4):
            yield 'pdata-4mid', pdata([(1 + 2 * i, payload(n, i)) for i, n in enumerate(combo)])
        for a in range(256):
            for b in range(256):
                yield 'abort-all', abort(a, b)
        for v in range(256):
            for o1, o2 in itertools.product((0, 1, 2, 3, 128, 255), repeat=2):
                yield 'rj-axis', rj(v, o1, o2)
                yield 'rj-axis', rj(o1, v, o2)
                yield 'rj-axis', rj(o1, o2, v)
    yield 'pdata-res', pdata([(1, payload(5, 3))], res=0xEE)
    yield 'pdata-4big', pdata([(1, payload(70001, 0)), (1, payload(65536, 0)), (3, payload(65537, 2)), (5, payload(1, 3))])


def shape(tree):
    """A signature of the structure (types, lengths) used to count distinct non-trivial cases."""
    def s(x):
        if isinstance(x, dict):
            return tuple((k, s(v)) for k, v in sorted(x.items()))
        if isinstance(x, list):
            return tuple(s(v) for v in x)
        if isinstance(x, (bytes, str)):
            return ('len', len(x))
        return x
    return hash(s(tree))


# --------------------------------------------------------------------------- tree <-> library objects

def _res3_tuple(b):
    return tuple(int.from_bytes(b[i:i + 4], 'big') for i in range(0, 32, 4))


def from_tree(tree):
    """Build the pynetdicom2 object for a tree using only the public constructors, with values in the
    form the library itself stores them (UID where decode() produces UID)."""
    from pynetdicom2 import pdu as P
    from pydicom import uid as U
    t = tree['pdu']
    if t in (1, 2):
        cls = P.AAssociateRqPDU if t == 1 else P.AAssociateAcPDU
        return cls(called_ae_title=tree['called'], calling_ae_title=tree['calling'],
                   variable_items=[item_from_tree(i) for i in tree['items']],
                   protocol_version=tree['version'], reserved1=tree['res1'], reserved2=tree['res2'],
                   reserved3=_res3_tuple(tree['res3']))
    if t == 3:
        return P.AAssociateRjPDU(tree['result'], tree['source'], tree['reason'], tree['res1'], tree['res2'])
    if t == 4:
        return P.PDataTfPDU([P.PresentationDataValueItem(p['id'], p['data']) for p in tree['pdvs']], tree['res'])
    if t in (5, 6):
        return (P.AReleaseRqPDU if t == 5 else P.AReleaseRpPDU)(tree['res1'], tree['res2'])
    if t == 7:
        return P.AAbortPDU(tree['source'], tree['reason'], tree['res1'], tree['res2'], tree['res3'])
    raise ValueError(t)


def item_from_tree(it):
    from pynetdicom2 import pdu as P
    from pydicom import uid as U
    t = it['t']
    if t == 0x10:
        return P.ApplicationContextItem(it['name'], it['res'])
    if t == 0x20:
        return P.PresentationContextItemRQ(
            it['id'], P.AbstractSyntaxSubItem(U.UID(it['abs']['name']), it['abs']['res']),
            [P.TransferSyntaxSubItem(ts['name'], ts['res']) for ts in it['ts']],
            it['res1'], it['res2'], it['res3'], it['res4'])
    if t == 0x21:
        return P.PresentationContextItemAC(it['id'], it['result'],
                                           P.TransferSyntaxSubItem(it['ts']['name'], it['ts']['res']),
                                           it['res1'], it['res2'], it['res3'])
    if t == 0x50:
        return P.UserInformationItem([sub_from_tree(s) for s in it['subs']], it['res'])
    raise ValueError(t)


def sub_from_tree(s):
    from pynetdicom2 import userdataitems as D
    from pydicom import uid as U
    t = s['t']
    if t == 0x51:
        return D.MaximumLengthSubItem(s['max'], s['res'])
    if t == 0x52:
        return D.ImplementationClassUIDSubItem(U.UID(s['uid']), s['res'])
    if t == 0x55:
        return D.ImplementationVersionNameSubItem(s['name'], s['res'])
    if t == 0x53:
        return D.AsynchronousOperationsWindowSubItem(s['invoked'], s['performed'], s['res'])
    if t == 0x54:
        return D.ScpScuRoleSelectionSubItem(U.UID(s['uid']), s['scu'], s['scp'], s['res'])
    if t == 0x56:
        return D.SOPClassExtendedNegotiationSubItem(U.UID(s['uid']), s['info'], s['res'])
    if t == 0x58:
        return D.UserIdentityNegotiationSubItem(s['primary'].decode('utf8'), s['secondary'].decode('utf8'),
                                                s['idtype'], s['resp'], s['res'])
    if t == 0x59:
        return D.UserIdentityNegotiationSubItemAc(s['response'].decode('utf8'), s['res'])
    return D.GenericUserDataSubItem(t, s['data'], s['res'])


def _s(x):
    return x.decode('latin-1') if isinstance(x, bytes) else str(x)


def to_tree(obj):
    """Field values of a pynetdicom2 PDU object as a reference tree."""
    n = type(obj).__name__
    if n in ('AAssociateRqPDU', 'AAssociateAcPDU'):
        return {'pdu': obj.pdu_type, 'res1': obj.reserved1, 'version': obj.protocol_version, 'res2': obj.reserved2,
                'called': _s(obj.called_ae_title), 'calling': _s(obj.calling_ae_title),
                'res3': b''.join(int(v).to_bytes(4, 'big') for v in obj.reserved3),
                'items': [item_to_tree(i) for i in obj.variable_items]}
    if n == 'AAssociateRjPDU':
        return {'pdu': 3, 'res1': obj.reserved1, 'res2': obj.reserved2, 'result': obj.result, 'source': obj.source,
                'reason': obj.reason_diag}
    if n == 'PDataTfPDU':
        return {'pdu': 4, 'res': obj.reserved, 'pdvs': [{'id': i.context_id, 'data': i.data_value}
                                                        for i in obj.data_value_items]}
    if n in ('AReleaseRqPDU', 'AReleaseRpPDU'):
        return {'pdu': obj.pdu_type, 'res1': obj.reserved1, 'res2': obj.reserved2}
    if n == 'AAbortPDU':
        return {'pdu': 7, 'res1': obj.reserved1, 'res2': obj.reserved2, 'res3': obj.reserved3, 'source': obj.source,
                'reason': obj.reason_diag}
    raise ValueError('not a PDU: %r' % (obj,))


def item_to_tree(i):
    n = type(i).__name__
    if n == 'ApplicationContextItem':
        return {'t': 0x10, 'res': i.reserved, 'name': _s(i.context_name)}
    if n == 'PresentationContextItemRQ':
        return {'t': 0x20, 'res1': i.reserved1, 'id': i.context_id, 'res2': i.reserved2, 'res3': i.reserved3,
                'res4': i.reserved4, 'abs': {'res': i.abs_sub_item.reserved, 'name': _s(i.abs_sub_item.name)},
                'ts': [{'res': ts.reserved, 'name': _s(ts.name)} for ts in i.ts_sub_items]}
    if n == 'PresentationContextItemAC':
        return {'t': 0x21, 'res1': i.reserved1, 'id': i.context_id, 'res2': i.reserved2, 'result': i.result_reason,
                'res3': i.reserved3, 'ts': {'res': i.ts_sub_item.reserved, 'name': _s(i.ts_sub_item.name)}}
    if n == 'UserInformationItem':
        return {'t': 0x50, 'res': i.reserved, 'subs': [sub_to_tree(s) for s in i.user_data]}
    return {'t': 'unexpected-object', 'repr': repr(i)}


def sub_to_tree(s):
    n = type(s).__name__
    if n == 'MaximumLengthSubItem':
        return {'t': 0x51, 'res': s.reserved, 'max': s.maximum_length_received}
    if n == 'ImplementationClassUIDSubItem':
        return {'t': 0x52, 'res': s.reserved, 'uid': _s(s.implementation_class_uid)}
    if n == 'ImplementationVersionNameSubItem':
        return {'t': 0x55, 'res': s.reserved, 'name': _s(s.implementation_version_name)}
    if n == 'AsynchronousOperationsWindowSubItem':
        return {'t': 0x53, 'res': s.reserved, 'invoked': s.max_num_ops_invoked, 'performed': s.max_num_ops_performed}
    if n == 'ScpScuRoleSelectionSubItem':
        return {'t': 0x54, 'res': s.reserved, 'uid': _s(s.sop_class_uid), 'scu': s.scu_role, 'scp': s.scp_role}
    if n == 'SOPClassExtendedNegotiationSubItem':
        return {'t': 0x56, 'res': s.reserved, 'uid': _s(s.sop_class_uid), 'info': s.app_info}
    if n == 'UserIdentityNegotiationSubItem':
        return {'t': 0x58, 'res': s.reserved, 'idtype': s.user_identity_type, 'resp': s.positive_response_req,
                'primary': s.primary_field.encode('utf8'), 'secondary': s.secondary_field.encode('utf8')}
    if n == 'UserIdentityNegotiationSubItemAc':
        return {'t': 0x59, 'res': s.reserved, 'response': s.server_response.encode('utf8', 'surrogateescape')
                if isinstance(s.server_response, str) else s.server_response}
    if n == 'GenericUserDataSubItem':
        return {'t': s.item_type, 'res': s.reserved, 'data': s.user_data}
    return {'t': 'unexpected-object', 'repr': repr(s)}


def diff(a, b, path=''):
    """First difference between two trees, or None."""
    if isinstance(a, dict) and isinstance(b, dict):
        for k in sorted(set(a) | set(b)):
            if k not in a or k not in b:
                return '%s.%s: present on one side only (%r / %r)' % (path, k, a.get(k, '<absent>'), b.get(k, '<absent>'))
            d = diff(a[k], b[k], '%s.%s' % (path, k))
            if d:
                return d
        return None
    if isinstance(a, (list, tuple)) and isinstance(b, (list, tuple)):
        for i, (x, y) in enumerate(zip(a, b)):
            d = diff(x, y, '%s[%d]' % (path, i))
            if d:
                return d
        if len(a) != len(b):
            return '%s: %d elements versus %d (first extra: %s)' % (
                path, len(a), len(b), _short((list(a) + list(b))[min(len(a), len(b))]))
        return None
    if a != b:
        return '%s: %s != %s' % (path, _short(a), _short(b))
    return None


def _short(x):
    r = repr(x)
    return r if len(r) < 120 else r[:117] + '...'


def deep_diff(a, b, path=''):
    """Recursive __dict__ walk over two library objects: same classes, same order, same values.
    str/UID are compared by value (UID is a str subclass); list/tuple are both sequences."""
    if isinstance(a, (list, tuple)) and isinstance(b, (list, tuple)):
        for i, (x, y) in enumerate(zip(a, b)):
            d = deep_diff(x, y, '%s[%d]' % (path, i))
            if d:
                return d
        if len(a) != len(b):
            return '%s: %d elements versus %d' % (path, len(a), len(b))
        return None
    if isinstance(a, str) and isinstance(b, str):
        return None if str(a) == str(b) else '%s: %s != %s' % (path, _short(str(a)), _short(str(b)))
    if isinstance(a, (int, bytes, type(None))) or isinstance(b, (int, bytes, type(None))):
        if type(a) is not type(b) and not (isinstance(a, int) and isinstance(b, int)):
            return '%s: type %s versus %s (%s / %s)' % (path, type(a).__name__, type(b).__name__, _short(a), _short(b))
        return None if a == b else '%s: %s != %s' % (path, _short(a), _short(b))
    if type(a) is not type(b):
        return '%s: class %s versus %s' % (path, type(a).__name__, type(b).__name__)
    da, db = vars(a), vars(b)
    for k in sorted(set(da) | set(db)):
        if k not in da or k not in db:
            return '%s.%s: attribute on one side only' % (path, k)
        d = deep_diff(da[k], db[k], '%s.%s' % (path, k))
        if d:
            return d
    return None
