"""Engine E2: the real DULServiceProvider.run() loop executed in the checker's own thread over a
simulated transport and a virtual clock.  Every loop head (`while not self.is_killed`) is an
environment point owned by the harness (see DESIGN.md 2.3)."""
import collections
import types

from . import ref_pdu, pdugen
from .common import HarnessError

ARTIM = 10


class Blocked(BaseException):
    """The provider called a blocking recv() with nothing to read: in real life it would sit there
    regardless of ARTIM.  Unwinds run()."""


class Hang(BaseException):
    """Step budget exhausted: the loop does not reach a quiescent point."""


class Stop(BaseException):
    pass


class Clock(object):
    def __init__(self):
        self.now = 1000.0
        self.slept = 0.0

    def time(self):
        return self.now

    def sleep(self, d):
        self.now += d
        self.slept += d


class SimSocket(object):
    def __init__(self, env):
        self.env = env
        self.inq = bytearray()
        self.peer_closed = False
        self.reset = False
        self.closed = False
        self.sent = []
        self.connected_to = None
        self.recv_limit = None
        self.fail_send = False

    def readable(self):
        return bool(self.inq) or self.peer_closed or self.reset

    def recv(self, n):
        if self.closed:
            raise OSError(9, 'Bad file descriptor')
        if n is not None and n <= 0:
            return b''
        if self.inq:
            k = min(n, len(self.inq))
            if self.recv_limit:
                k = min(k, self.recv_limit)
            out = bytes(self.inq[:k])
            del self.inq[:k]
            return out
        if self.reset:
            raise OSError(104, 'Connection reset by peer')
        if self.peer_closed:
            return b''
        self.env.log('blocked-recv')
        raise Blocked()

    def sendall(self, data):
        if self.closed:
            raise OSError(9, 'Bad file descriptor')
        if self.reset or self.fail_send:
            raise OSError(32, 'Broken pipe')
        self.sent.append(bytes(data))
        self.env.wire_out(bytes(data))

    def connect(self, addr):
        self.connected_to = addr
        self.env.log(('connect', addr))

    def close(self):
        if not self.closed:
            self.closed = True
            self.env.log('close')
            if getattr(self, 'close_fails', False):
                # close() released the descriptor and reports an error left over from earlier writes (EIO, ECONNRESET on some systems)
                self.close_fails = False
                raise OSError(5, 'Input/output error')

    def settimeout(self, t):
        pass

    def fileno(self):
        return 99


class _UserQueue(object):
    """to_service_user replacement is NOT needed: the real queue.Queue works single-threaded."""


def _fake_select_module(env):
    m = types.SimpleNamespace()

    def select(r, w, x, timeout=None):
        env.polls += 1
        return [s for s in r if s is not None and s.readable()], [], []
    m.select = select
    m.error = OSError
    return m


def _fake_socket_module(env):
    m = types.SimpleNamespace()
    m.AF_INET, m.SOCK_STREAM = 2, 1
    m.error = OSError

    def socket(*a):
        s = SimSocket(env)
        env.sock = s
        env.ever_socket = True
        return s
    m.socket = socket
    return m


HOOKS = {'start': None, 'loop_head': None}


class Patches(object):
    """Run-time seams (DESIGN.md 2.7).  Applied once per process; idempotent."""
    applied = False
    env = None

    @classmethod
    def apply(cls):
        if cls.applied:
            return
        from pynetdicom2 import dulprovider, fsm
        for mod, name in ((dulprovider, 'select'), (dulprovider, 'time'), (fsm, 'socket'),
                          (dulprovider.DULServiceProvider, 'start'), (dulprovider.DULServiceProvider, 'run')):
            if not hasattr(mod, name):
                raise HarnessError('patch target %s.%s missing' % (getattr(mod, '__name__', mod), name))
        P = dulprovider.DULServiceProvider
        if 'is_killed' in vars(P):
            raise HarnessError('DULServiceProvider.is_killed is already a class attribute: harness assumption broken')

        def start(self):
            if HOOKS['start'] is not None:      # engine E3 registers the provider thread with its scheduler
                HOOKS['start'](self)

        def get_killed(self):
            h = self.__dict__.get('_vp')
            if h is not None:
                return h.loop_head(self)
            if HOOKS['loop_head'] is not None:
                return HOOKS['loop_head'](self)
            return self.__dict__.get('_vp_flag', False)

        def set_killed(self, value):
            self.__dict__['_vp_flag'] = value
        P.start = start
        P.is_killed = property(get_killed, set_killed)
        dulprovider.select = types.SimpleNamespace(select=lambda r, w, x, t=None: cls.env.select(r, w, x, t), error=OSError)
        dulprovider.time = types.SimpleNamespace(time=lambda: cls.env.clock.time(), sleep=lambda d: cls.env.clock.sleep(d))
        fake_sock = types.SimpleNamespace(AF_INET=2, SOCK_STREAM=1, error=OSError,
                                          socket=lambda *a: cls.env.new_socket())
        fsm.socket = fake_sock
        cls.applied = True


EXPECTED_PROVIDER_ATTRS = {'primitive', 'dimse_gen', 'event', 'max_pdu_length', 'to_service_user', 'from_service_user',
                           'timer', 'state_machine', '_is_killed', 'dul_socket', 'raw_pdu'}
EXPECTED_SM_ATTRS = {'current_state', 'provider', 'timer', 'store_in_file', 'get_file_cb', 'accepted_contexts',
                     'dimse_decoder', 'transition_table'}


class Env(object):
    """One execution: a fresh provider, its simulated socket, clock, and the observation log."""

    def __init__(self, role, history, budget=400, deviations=None, recv_limit=None, prequeue=0, dev_guard=None,
                 store_in_file=frozenset(), get_file_cb=None, max_pdu_length=16384):
        from pynetdicom2 import dulprovider, asceprovider
        from pydicom import uid
        Patches.apply()
        Patches.env = self
        self.role = role
        self.history = list(history)
        self.pos = 0
        self.clock = Clock()
        self.polls = 0
        self.iterations = 0
        self.budget = budget
        self.sock = None
        self.ever_socket = False
        self.steps = []            # one observation per injected event (plus step 0 = start-up)
        self.cur = self._new_step(('start',))
        self.status = None
        self.exc = None
        self.deviations = dict(deviations or {})   # loop-head index -> inject there although not quiescent
        self.recv_limit = recv_limit
        self.dev_guard = dev_guard
        self.nonquiescent_heads = 0
        self.final_idle = False
        if role == 'ac':
            self.sock = SimSocket(self)
            self.sock.recv_limit = recv_limit
            self.ever_socket = True
            # events delivered before run() starts ("first segment already waiting")
            for _ in range(prequeue):
                if self.pos < len(self.history) and self.history[self.pos][0] in ('pdu', 'bytes'):
                    self.sock.inq += self.history[self.pos][1]
                    self.cur['pre'] = self.cur.get('pre', 0) + 1
                    self.pos += 1
        self.prov = dulprovider.DULServiceProvider(store_in_file, get_file_cb, self.sock, max_pdu_length)
        ctx = asceprovider.PContextDef(1, uid.UID('1.2.840.10008.1.1'), uid.UID('1.2.840.10008.1.2'))
        ctx3 = asceprovider.PContextDef(3, uid.UID('1.2.840.10008.5.1.4.1.1.2'), uid.UID('1.2.840.10008.1.2'))
        self.prov.accepted_contexts = {1: ctx, 3: ctx3}
        got = set(k for k in vars(self.prov) if not k.startswith('_vp') and k not in _THREAD_ATTRS)
        missing = [k for k in EXPECTED_PROVIDER_ATTRS - got if not hasattr(self.prov, k)]
        if missing:
            raise HarnessError('provider lost attributes %r: canonical state would be wrong' % (missing,))
        self.extra_attrs = sorted(got - EXPECTED_PROVIDER_ATTRS)
        self.prov.__dict__['_vp'] = self
        # the loop-exited event is what kill() waits for: remember what the transport looked like when it was set
        self.exit_sock = None
        inner, env = self.prov._is_killed, self

        class _ExitEvent(object):
            def set(self_):
                if env.exit_sock is None:
                    env.exit_sock = env.sock_state(env.prov)
                inner.set()

            def __getattr__(self_, name):
                return getattr(inner, name)
        if hasattr(inner, 'set'):
            self.prov._is_killed = _ExitEvent()

    # ---- environment callbacks
    def new_socket(self):
        s = SimSocket(self)
        s.recv_limit = self.recv_limit
        self.sock = s
        self.ever_socket = True
        return s

    def select(self, r, w, x, t):
        self.polls += 1
        if any(s is not None and s.closed for s in r):
            # what select() does with a closed socket object (fileno() == -1)
            raise ValueError('file descriptor cannot be a negative integer (-1)')
        return [s for s in r if s is not None and s.readable()], [], []

    def log(self, what):
        self.cur['log'].append(what)

    def wire_out(self, data):
        self.cur['wire'] += data

    def _new_step(self, ev):
        return {'ev': ev, 'wire': b'', 'log': [], 'inds': []}

    # ---- quiescence
    def quiescent(self, p):
        from pynetdicom2 import fsm
        if p.event or p.dimse_gen is not None or not p.from_service_user.empty():
            return False
        if p.timer.check() is False:
            return False
        s = p.dul_socket
        if s is not None and s.readable():
            return False
        if len(p.raw_pdu) >= 6 and len(p.raw_pdu) >= 6 + int.from_bytes(p.raw_pdu[2:6], 'big'):
            return False
        if p.state_machine.current_state == fsm.States.STA_4:
            return False
        return True

    def loop_head(self, p):
        self.iterations += 1
        if self.iterations > self.budget:
            raise Hang()
        if p.__dict__.get('_vp_flag'):
            self.cur['log'].append('killed-flag-seen')
            return True
        q = self.quiescent(p)
        if not q:
            self.nonquiescent_heads += 1
            if self.deviations.get(self.nonquiescent_heads) and self.pos < len(self.history) and \
                    (self.dev_guard is None or self.dev_guard(self.pos)):
                self._inject(p, deviation=True)
                if p.__dict__.get('_vp_flag'):
                    self.cur['log'].append('killed-flag-seen')
                    return True
            return False
        # quiescent: close the current step and inject the next event; every step runs at least one loop
        # iteration (an idle poll must not block: in real life select() guards recv())
        if self.pos >= len(self.history):
            if not self.final_idle:
                self.final_idle = True
                self._close_step(p)
                self.cur = self._new_step(('idle',))
                return False
            self._close_step(p)
            self.cur = self._new_step(('end',))
            self.status = 'quiescent-end'
            return True
        self._inject(p)
        if p.__dict__.get('_vp_flag'):
            self.cur['log'].append('killed-flag-seen')
            return True
        return False

    def _close_step(self, p):
        self._drain(p)
        self.cur['state'] = p.state_machine.current_state
        self.cur['timer'] = p.timer._start_time is not None
        self.cur['timer_started_at'] = p.timer._start_time
        self.cur['now'] = self.clock.now
        self.cur['sock'] = self.sock_state(p)
        self.steps.append(self.cur)

    def sock_state(self, p):
        if p.dul_socket is None:
            return 'closed' if self.ever_socket else 'none'
        return 'closed' if p.dul_socket.closed else 'open'

    def _drain(self, p):
        while not p.to_service_user.empty():
            item = p.to_service_user.get(False)
            if getattr(item, 'pdu_type', None) == 1:
                self.last_rq = item            # (what an acceptor builds its answer from)
            self.cur['inds'].append(summarize_indication(item))

    def _inject(self, p, deviation=False):
        if not deviation:
            self._close_step(p)
        ev = self.history[self.pos]
        self.pos += 1
        if deviation:
            # the event lands inside the current step: remember it in the step label
            self.cur.setdefault('dev', []).append(ev)
            self.cur.setdefault('devinfo', []).append({'ev': ev, 'pending': len(p.event), 'wire_len': len(self.cur['wire'])})
        else:
            self.cur = self._new_step(ev)
        self._apply(p, ev)

    def _apply(self, p, ev):
        kind = ev[0]
        sock = self.sock
        if kind == 'multi':
            # several environment events become visible at the same instant (same loop head)
            for sub in ev[1]:
                self._apply(p, sub)
        elif kind == 'other':
            # another association of the same process runs through a complete conversation right now
            saved = Patches.env
            other = Env(ev[1], ev[2], budget=self.budget)
            other.clock = self.clock
            Patches.env = other
            other.run()
            Patches.env = saved
            self.cur['log'].append(('other-association', other.final['status'], other.final['state']))
        elif kind == 'bytes_close':
            # the peer sent these bytes and closed at once: both are visible at the next poll
            if sock is not None and not sock.closed and not sock.peer_closed:
                sock.inq += ev[1]
                sock.peer_closed = True
            else:
                self.cur['log'].append('undeliverable')
        elif kind in ('pdu', 'bytes'):
            if sock is not None and not sock.closed and not sock.peer_closed:
                sock.inq += ev[1]
            else:
                self.cur['log'].append('undeliverable')
        elif kind == 'close':
            if sock is not None:
                sock.peer_closed = True
        elif kind == 'reset':
            if sock is not None:
                sock.reset = True
        elif kind == 'close-error':
            # from now on the first close() of this connection reports an error (the connection is released all the same)
            if sock is not None:
                sock.close_fails = True
        elif kind == 'gone':
            # the connection is dead but nothing is readable yet: the next send fails (EPIPE / ECONNRESET)
            if sock is not None:
                sock.fail_send = True
        elif kind == 'tick':
            self.clock.now += ev[1]
        elif kind == 'user':
            if ev[1][0] == 'accept_echo':
                # the way AssociationAcceptor.accept() answers: titles, application context and user information of the request
                from pynetdicom2 import pdu as P
                rq = getattr(self, 'last_rq', None)
                if rq is None:
                    self.cur['log'].append('no-request-to-answer')
                    return
                ac = P.AAssociateAcPDU(called_ae_title=rq.called_ae_title, calling_ae_title=rq.calling_ae_title,
                                       variable_items=[rq.variable_items[0],
                                                       P.PresentationContextItemAC(1, 0, P.TransferSyntaxSubItem('1.2.840.10008.1.2')),
                                                       rq.variable_items[-1]])
                p.from_service_user.put(ac)
            else:
                p.from_service_user.put(make_primitive(ev[1]))
        elif kind == 'kill':
            p.is_killed = True
        elif kind == 'stop':
            self.cur['log'].append(('stop-returned', p.stop()))
        else:
            raise HarnessError('unknown history event %r' % (ev,))

    # ---- running
    def run(self):
        p = self.prov
        try:
            p.run()
            if self.status is None:
                self.status = 'returned'
        except Blocked:
            self.status = 'blocked-recv'
        except Hang:
            self.status = 'hang'
        except Stop:
            self.status = 'stopped'
        except Exception as exc:  # escaped run(): the loop died
            self.status = 'raised'
            self.exc = exc
        if self.status != 'quiescent-end':
            self._close_step(p)
        self.final = {'status': self.status, 'exc': repr(self.exc) if self.exc else None,
                      'state': p.state_machine.current_state, 'sock': self.sock_state(p),
                      'timer': p.timer._start_time is not None, 'raw_pdu': bytes(p.raw_pdu),
                      'thread_flag': p._is_killed.is_set(), 'consumed': self.pos, 'iterations': self.iterations,
                      'exit_sock': self.exit_sock}
        p.__dict__.pop('_vp', None)
        return self


_THREAD_ATTRS = set(vars(__import__('threading').Thread()).keys())


def _digest(obj):
    import hashlib
    return hashlib.sha1(repr(obj).encode()).hexdigest()[:12]


def summarize_indication(item):
    """Kind and key fields of what the provider handed to its user, plus a digest of the complete content (every field of
    a PDU via pdugen.to_tree; command set and data set of a DIMSE message)."""
    if isinstance(item, tuple) and len(item) == 2:
        msg, pc = item
        ds = getattr(msg, 'data_set', None)
        try:
            cs = sorted((int(e.tag), str(e.value)) for e in msg.command_set)
        except Exception as exc:  # noqa
            cs = 'unreadable command set %r' % (exc,)
        return ('DIMSE', type(msg).__name__, pc, len(ds) if isinstance(ds, bytes) else (None if ds is None else 'file'),
                _digest((cs, ds if isinstance(ds, bytes) else None)))
    t = getattr(item, 'pdu_type', None)
    if t in (1, 2):
        try:
            full = _digest(sorted(pdugen.to_tree(item).items(), key=lambda kv: kv[0]))
        except Exception as exc:  # noqa
            full = 'untreeable %r' % (exc,)
        return (ref_pdu.PDU_NAMES[t], str(item.called_ae_title), str(item.calling_ae_title), len(item.variable_items), full)
    if t == 7:
        return ('A-ABORT', item.source, item.reason_diag)
    if t == 3:
        return ('A-ASSOCIATE-RJ', item.result, item.source, item.reason_diag)
    if t in (1, 2):
        return (ref_pdu.PDU_NAMES[t], str(item.called_ae_title), str(item.calling_ae_title), len(item.variable_items))
    if t in (5, 6):
        return (ref_pdu.PDU_NAMES[t],)
    if t == 4:
        return ('P-DATA-TF-object',)
    return ('unknown', repr(item))


def summarize_wire(data):
    """Wire bytes -> list of PDU summaries via the reference parser; ('MALFORMED', ...) if not parseable."""
    out = []
    pdus, rest = ref_pdu.split_stream(data)
    for raw in pdus:
        try:
            t = ref_pdu.parse(raw)
        except ref_pdu.RefError as exc:
            out.append(('MALFORMED', str(exc), raw[:12].hex()))
            continue
        n = ref_pdu.PDU_NAMES[t['pdu']]
        if t['pdu'] == 7:
            out.append((n, t['source'], t['reason']))
        elif t['pdu'] == 3:
            out.append((n, t['result'], t['source'], t['reason']))
        elif t['pdu'] in (1, 2):
            out.append((n, t['called'], t['calling'], len(t['items'])))
        elif t['pdu'] == 4:
            out.append((n, tuple((p['id'], p['data'][0] if p['data'] else None, len(p['data'])) for p in t['pdvs'])))
        else:
            out.append((n,))
    if rest:
        out.append(('TRAILING-BYTES', len(rest), rest[:12].hex()))
    return out


# --------------------------------------------------------------------------- PDUs and primitives

def std_rq():
    return ref_pdu.build(pdugen.assoc(1, [pdugen.app(), pdugen.pcrq(1), pdugen.pcrq(3, '1.2.840.10008.5.1.4.1.1.2'),
                                          pdugen.ui([{'t': 0x51, 'res': 0, 'max': 16384}, {'t': 0x52, 'res': 0, 'uid': '1.2.3'}])],
                                      called='ACCEPTOR', calling='REQUESTOR'))


def std_ac():
    return ref_pdu.build(pdugen.assoc(2, [pdugen.app(), pdugen.pcac(1), pdugen.pcac(3),
                                          pdugen.ui([{'t': 0x51, 'res': 0, 'max': 16384}, {'t': 0x52, 'res': 0, 'uid': '1.2.4'}])],
                                      called='ACCEPTOR', calling='REQUESTOR'))


def std_rj(result=1, source=1, reason=1):
    return ref_pdu.build(pdugen.rj(result, source, reason))


def std_release(rp=False):
    return ref_pdu.build(pdugen.release(6 if rp else 5))


def std_abort(source=0, reason=0):
    return ref_pdu.build(pdugen.abort(source, reason))


def unknown_pdu(t=0x0A, body=b'\x00\x01\x02\x03'):
    return bytes([t, 0]) + len(body).to_bytes(4, 'big') + body


_CMD_CACHE = {}


def echo_cmd(msg_id=1):
    """Encoded C-ECHO-RQ command set (built with pydicom directly)."""
    k = ('echo', msg_id)
    if k not in _CMD_CACHE:
        import pydicom
        from . import dsgen
        ds = pydicom.Dataset()
        ds.AffectedSOPClassUID = '1.2.840.10008.1.1'
        ds.CommandField = 0x0030
        ds.MessageID = msg_id
        ds.CommandDataSetType = 0x0101
        body = dsgen.enc(ds, '1.2.840.10008.1.2')
        ds.CommandGroupLength = len(body)
        _CMD_CACHE[k] = dsgen.enc(ds, '1.2.840.10008.1.2')
    return _CMD_CACHE[k]


def store_cmd(msg_id=2):
    k = ('store', msg_id)
    if k not in _CMD_CACHE:
        import pydicom
        from . import dsgen
        ds = pydicom.Dataset()
        ds.AffectedSOPClassUID = '1.2.840.10008.5.1.4.1.1.2'
        ds.CommandField = 0x0001
        ds.MessageID = msg_id
        ds.Priority = 0
        ds.CommandDataSetType = 0x0001
        ds.AffectedSOPInstanceUID = '1.2.3.4.5'
        body = dsgen.enc(ds, '1.2.840.10008.1.2')
        ds.CommandGroupLength = len(body)
        _CMD_CACHE[k] = dsgen.enc(ds, '1.2.840.10008.1.2')
    return _CMD_CACHE[k]


def pdata(pc, hdr, payload):
    return ref_pdu.build(pdugen.pdata([(pc, bytes([hdr]) + payload)]))


def split(b, k):
    """b split into k non-empty pieces (k <= len(b))."""
    n = len(b)
    cuts = [n * i // k for i in range(k + 1)]
    return [b[cuts[i]:cuts[i + 1]] for i in range(k)]


def make_primitive(spec):
    """User primitive objects as the upper layer would hand them to DULServiceProvider.send()."""
    from pynetdicom2 import pdu as P
    kind = spec[0]
    if kind == 'assoc_rq':
        obj = P.AAssociateRqPDU.decode(std_rq())
        obj.called_presentation_address = ('peer.host', 104)
        return obj
    if kind == 'accept':
        return P.AAssociateAcPDU.decode(std_ac())
    if kind == 'reject':
        return P.AAssociateRjPDU(*spec[1:4]) if len(spec) > 1 else P.AAssociateRjPDU(1, 1, 1)
    if kind == 'release_rq':
        return P.AReleaseRqPDU()
    if kind == 'release_rp':
        return P.AReleaseRpPDU()
    if kind == 'abort':
        return P.AAbortPDU(source=spec[1] if len(spec) > 1 else 0, reason_diag=spec[2] if len(spec) > 2 else 0)
    if kind == 'pdata':
        nfrag = spec[1]
        pieces = split(echo_cmd(7), nfrag)
        pdus = [P.PDataTfPDU([P.PresentationDataValueItem(1, bytes([3 if i == nfrag - 1 else 1]) + pc)])
                for i, pc in enumerate(pieces)]
        return iter(pdus)
    if kind == 'pdata_same':
        one = P.PDataTfPDU([P.PresentationDataValueItem(1, bytes([3]) + echo_cmd(9))])
        return iter([one, one])
    raise HarnessError('unknown primitive %r' % (spec,))


def canon(env):
    """Canonical form of the provider state reached by an execution (all instance attributes of the
    provider, state machine, timer and decoder; see DESIGN.md 2.3)."""
    p = env.prov
    sm = p.state_machine
    t = p.timer
    dec = sm.dimse_decoder
    if dec is None:
        d = None
    else:
        d = (dec.receiving, dec.command_set_received, dec.data_set_received, dec.pc_id,
             tuple(len(x) for x in dec._encoded_command_set), tuple(len(x) for x in dec._encoded_data_set),
             dec._dataset_fp is not None)
    prim = p.primitive
    if prim is None:
        pk = None
    elif hasattr(prim, 'pdu_type'):
        pk = (prim.pdu_type, getattr(prim, 'source', None), getattr(prim, 'reason_diag', None))
    else:
        pk = ('other', type(prim).__name__)
    remaining = None if t._start_time is None else round(t._max_seconds - (env.clock.now - t._start_time), 3)
    extra = tuple((k, repr(vars(p)[k])) for k in env.extra_attrs)
    return (sm.current_state, env.role, remaining, env.sock_state(p),
            None if env.sock is None else (env.sock.peer_closed, env.sock.reset, bytes(env.sock.inq)),
            bytes(p.raw_pdu), pk, tuple(p.event), p.dimse_gen is not None, d, p.from_service_user.qsize(),
            env.final['status'], extra)
