"""Engine E4 - two library operations in two real threads, every single pre-emption at LINE granularity.

E3 schedules at synchronisation operations; that is enough for code that communicates through queues, events and locks, but it
cannot see a thread switch in the middle of a plain computation - and a scratch buffer, memo or template object shared at module
or class level is corrupted exactly there (two provider threads encoding at the same time, an application thread configuring an
entity while an association is being set up).  E4 closes that gap for pairs of operations:

  for each ordered pair (A, B) of operations of a catalogue, for each k = 0, 1, 2, ...:
      thread A runs until its k-th line event inside pynetdicom2 source (sys.settrace), is parked there,
      thread B runs from start to finish, thread A is resumed and finishes;
  (k beyond A's last line event ends the enumeration: that schedule is "A then B")

= every schedule of the two threads with at most ONE pre-emption, at the granularity of source lines of the library under test
(lines of pydicom and of the standard library are atomic).  Oracle: each operation's result equals the result it gives when it
runs alone on fresh objects (the single-threaded behaviour is decided absolutely by the enumeration parts of the same checks).
An operation is a factory: make() -> (callable, describe) so that every execution works on fresh objects; what is deliberately
shared between the two threads (an entity, the library's module state) is what the factory closes over.
"""
import os
import sys
import threading

from . import common

REAL_TIMEOUT = 20.0
BLOCKED_AFTER = 0.4


class _Parked(Exception):
    pass


def _libdir():
    return os.path.join(os.path.realpath(common.REPO), 'pynetdicom2') + os.sep


def run_pair(fa, fb, k):
    """Thread A = fa() pre-empted at its k-th library line event by thread B = fb() (run to completion).  k = None: no tracing,
    A then B.  -> (result_a, result_b, points_seen_in_A, reached)  where results are ('ok', value) or ('exc', repr)."""
    lib = _libdir()
    go_b = threading.Semaphore(0)
    resume_a = threading.Semaphore(0)
    done_a = threading.Semaphore(0)
    state = {'count': 0, 'reached': False, 'where': None, 'b_blocked': False}
    res = {}

    def local_trace(frame, event, arg):
        if event == 'line' and not state['reached']:
            if state['count'] == k:
                state['reached'] = True
                state['where'] = '%s:%d' % (os.path.basename(frame.f_code.co_filename), frame.f_lineno)
                go_b.release()
                if not resume_a.acquire(timeout=BLOCKED_AFTER):
                    # B did not finish: it is blocked on something A holds (A was parked inside a critical section).  A real
                    # scheduler would run A again: do so, B completes when A lets go.
                    state['b_blocked'] = True
                return None
            state['count'] += 1
        return local_trace

    def global_trace(frame, event, arg):
        if state['reached']:
            return None
        if frame.f_code.co_filename.startswith(lib):
            return local_trace
        return None

    def body_a():
        if k is not None:
            sys.settrace(global_trace)
        try:
            res['a'] = ('ok', fa())
        except common.HarnessError:
            raise
        except BaseException as exc:  # noqa
            res['a'] = ('exc', '%s: %s' % (type(exc).__name__, exc))
        finally:
            sys.settrace(None)
            if not state['reached']:
                go_b.release()
            done_a.release()

    def body_b():
        if not go_b.acquire(timeout=REAL_TIMEOUT):
            res['b'] = ('exc', 'E4: never started')
            return
        try:
            res['b'] = ('ok', fb())
        except common.HarnessError:
            raise
        except BaseException as exc:  # noqa
            res['b'] = ('exc', '%s: %s' % (type(exc).__name__, exc))
        finally:
            resume_a.release()

    ta = threading.Thread(target=body_a, name='vp-e4-a', daemon=True)
    tb = threading.Thread(target=body_b, name='vp-e4-b', daemon=True)
    ta.start()
    tb.start()
    ta.join(REAL_TIMEOUT * 2)
    tb.join(REAL_TIMEOUT * 2)
    if ta.is_alive() or tb.is_alive():
        raise common.HarnessError('E4: threads did not finish (k=%r, parked at %r)' % (k, state['where']))
    return res.get('a'), res.get('b'), state['count'], state['reached'], state['where']


def _call(fn):
    try:
        return ('ok', fn())
    except common.HarnessError:
        raise
    except BaseException as exc:  # noqa
        return ('exc', '%s: %s' % (type(exc).__name__, exc))


def explore_pair(make, max_points=3000, stride=1):
    """make() -> {'a': callable, 'b': callable, 'post': callable or None, 'cleanup': callable or None} on fresh objects (what the two
    callables share is the subject of the check).  Outcome = (result of a, result of b, post()).  Allowed outcomes = those of the
    two serial orders, computed in the main thread; every single-pre-emption schedule (a parked at its k-th library line while
    b runs, and the other way round) must produce an allowed outcome.
    -> dict(executions, points=(na, nb), mismatches=[(direction, k, where, outcome)], allowed=[...])"""
    def finish(m, ra, rb):
        post = _call(m['post']) if m.get('post') else None
        if m.get('cleanup'):
            m['cleanup']()
        return (ra, rb, post)
    # the serial orders, each operation in a thread of its own (thread-local state is part of the semantics)
    allowed = []
    m = make()
    ra, rb = run_pair(m['a'], m['b'], None)[:2]
    allowed.append(finish(m, ra, rb))
    m = make()
    rb, ra = run_pair(m['b'], m['a'], None)[:2]
    o = finish(m, ra, rb)
    if o not in allowed:
        allowed.append(o)
    out = {'executions': 2, 'points': [0, 0], 'mismatches': [], 'allowed': allowed, 'capped': False,
           'serial_errors': [x for o in allowed for x in o if isinstance(x, tuple) and x and x[0] == 'exc']}
    for di, direction in enumerate(('a-preempted-by-b', 'b-preempted-by-a')):
        k = 0
        while True:
            if k >= max_points:
                out['capped'] = True
                break
            m = make()
            first, second = (m['a'], m['b']) if di == 0 else (m['b'], m['a'])
            r1, r2, n, reached, where = run_pair(first, second, k)
            ra, rb = (r1, r2) if di == 0 else (r2, r1)
            o = finish(m, ra, rb)
            out['executions'] += 1
            if o not in allowed:
                out['mismatches'].append((direction, k, where, o))
            if not reached:
                out['points'][di] = n
                break
            k += stride
    return out
