"""Independent reference codec for the DICOM upper-layer PDUs (PS3.8 9.3.2-9.3.8, Annex D;
PS3.7 Annex D.3.3).  Strictly length driven: every item is delimited by its own length field and
children must fill their parent exactly.  Shares no code with pynetdicom2.

Tree form (plain dicts, text fields as str (ISO 646), binary fields as bytes):

 A-ASSOCIATE-RQ/AC {'pdu':1|2,'res1','version','res2','called','calling','res3':bytes32,'items':[..]}
   item 0x10 {'t':0x10,'res','name'}
   item 0x20 {'t':0x20,'res1','id','res2','res3','res4','abs':{'res','name'},'ts':[{'res','name'}]}
   item 0x21 {'t':0x21,'res1','id','res2','result','res3','ts':{'res','name'}}
   item 0x50 {'t':0x50,'res','subs':[sub..]}
     sub 0x51 {'t':0x51,'res','max'}            0x52 {'t','res','uid'}    0x55 {'t','res','name'}
     sub 0x53 {'t':0x53,'res','invoked','performed'}
     sub 0x54 {'t':0x54,'res','uid','scu','scp'}
     sub 0x56 {'t':0x56,'res','uid','info':bytes}
     sub 0x58 {'t':0x58,'res','idtype','resp','primary':bytes,'secondary':bytes}
     sub 0x59 {'t':0x59,'res','response':bytes}
     other    {'t':x,'res','data':bytes}
 A-ASSOCIATE-RJ {'pdu':3,'res1','res2','result','source','reason'}
 P-DATA-TF      {'pdu':4,'res','pdvs':[{'id','data':bytes}]}   (data includes the message control header)
 A-RELEASE-RQ/RP{'pdu':5|6,'res1','res2'}
 A-ABORT        {'pdu':7,'res1','res2','res3','source','reason'}
"""


class RefError(Exception):
    pass


def _u(b):
    return int.from_bytes(b, 'big')


def _p(v, n):
    if not 0 <= v < (1 << (8 * n)):
        raise RefError('value %r does not fit %d bytes' % (v, n))
    return int(v).to_bytes(n, 'big')


def _txt(b):
    try:
        return b.decode('ascii')
    except UnicodeDecodeError:
        return b.decode('latin-1')


def _etxt(s):
    return s.encode('latin-1')


class _R(object):
    def __init__(self, data, what):
        self.d, self.i, self.what = data, 0, what

    def take(self, n):
        if self.i + n > len(self.d):
            raise RefError('%s: need %d bytes at offset %d, only %d left' % (self.what, n, self.i, len(self.d) - self.i))
        out = self.d[self.i:self.i + n]
        self.i += n
        return out

    def u(self, n):
        return _u(self.take(n))

    def left(self):
        return len(self.d) - self.i

    def done(self):
        if self.i != len(self.d):
            raise RefError('%s: %d bytes not governed by any length field' % (self.what, len(self.d) - self.i))


def _items(data, what):
    """Split a byte string into (type, reserved, body) triples using each item's 2-byte length."""
    r = _R(data, what)
    out = []
    while r.left():
        t = r.u(1)
        res = r.u(1)
        ln = r.u(2)
        out.append((t, res, r.take(ln)))
    return out


def strip_ae(b):
    return _txt(b).strip(' ')


# --------------------------------------------------------------------------- parse

def parse(data):
    """Parse exactly one PDU occupying all of data."""
    if len(data) < 6:
        raise RefError('PDU shorter than its 6-byte header')
    t, res, ln = data[0], data[1], _u(data[2:6])
    if ln != len(data) - 6:
        raise RefError('PDU length field %d but %d bytes follow the header' % (ln, len(data) - 6))
    body = data[6:]
    if t in (1, 2):
        r = _R(body, 'A-ASSOCIATE body')
        version = r.u(2)
        res2 = r.u(2)
        called = r.take(16)
        calling = r.take(16)
        res3 = r.take(32)
        items = [_parse_item(*it) for it in _items(body[68:], 'variable items')]
        return {'pdu': t, 'res1': res, 'version': version, 'res2': res2, 'called': strip_ae(called),
                'calling': strip_ae(calling), 'called_raw': called, 'calling_raw': calling,
                'res3': res3, 'items': items}
    if t == 3:
        if ln != 4:
            raise RefError('A-ASSOCIATE-RJ length %d' % ln)
        return {'pdu': 3, 'res1': res, 'res2': body[0], 'result': body[1], 'source': body[2], 'reason': body[3]}
    if t == 4:
        r = _R(body, 'P-DATA-TF body')
        pdvs = []
        while r.left():
            iln = r.u(4)
            if iln < 2:
                raise RefError('PDV item length %d < 2' % iln)
            cid = r.u(1)
            pdvs.append({'id': cid, 'data': r.take(iln - 1)})
        return {'pdu': 4, 'res': res, 'pdvs': pdvs}
    if t in (5, 6):
        if ln != 4:
            raise RefError('A-RELEASE length %d' % ln)
        return {'pdu': t, 'res1': res, 'res2': _u(body)}
    if t == 7:
        if ln != 4:
            raise RefError('A-ABORT length %d' % ln)
        return {'pdu': 7, 'res1': res, 'res2': body[0], 'res3': body[1], 'source': body[2], 'reason': body[3]}
    raise RefError('unknown PDU type 0x%02X' % t)


def _parse_item(t, res, body):
    if t == 0x10:
        return {'t': t, 'res': res, 'name': _txt(body)}
    if t == 0x20:
        r = _R(body, 'presentation context (RQ)')
        cid, r2, r3, r4 = r.u(1), r.u(1), r.u(1), r.u(1)
        subs = _items(body[4:], 'presentation context sub-items')
        out = {'t': t, 'res1': res, 'id': cid, 'res2': r2, 'res3': r3, 'res4': r4, 'abs': None, 'ts': []}
        for st, sres, sbody in subs:
            if st == 0x30 and out['abs'] is None and not out['ts']:
                out['abs'] = {'res': sres, 'name': _txt(sbody)}
            elif st == 0x40:
                out['ts'].append({'res': sres, 'name': _txt(sbody)})
            else:
                raise RefError('unexpected sub-item 0x%02X in presentation context' % st)
        if out['abs'] is None:
            raise RefError('presentation context without abstract syntax')
        return out
    if t == 0x21:
        r = _R(body, 'presentation context (AC)')
        cid, r2, result, r3 = r.u(1), r.u(1), r.u(1), r.u(1)
        subs = _items(body[4:], 'presentation context sub-items')
        if len(subs) != 1 or subs[0][0] != 0x40:
            raise RefError('presentation context (AC) must hold exactly one transfer syntax sub-item')
        return {'t': t, 'res1': res, 'id': cid, 'res2': r2, 'result': result, 'res3': r3,
                'ts': {'res': subs[0][1], 'name': _txt(subs[0][2])}}
    if t == 0x50:
        return {'t': t, 'res': res, 'subs': [_parse_sub(*s) for s in _items(body, 'user information')]}
    raise RefError('unknown variable item 0x%02X' % t)


def _parse_sub(t, res, body):
    r = _R(body, 'sub-item 0x%02X' % t)
    if t == 0x51:
        out = {'t': t, 'res': res, 'max': r.u(4)}
    elif t == 0x52:
        return {'t': t, 'res': res, 'uid': _txt(body)}
    elif t == 0x55:
        return {'t': t, 'res': res, 'name': _txt(body)}
    elif t == 0x53:
        out = {'t': t, 'res': res, 'invoked': r.u(2), 'performed': r.u(2)}
    elif t == 0x54:
        n = r.u(2)
        out = {'t': t, 'res': res, 'uid': _txt(r.take(n)), 'scu': r.u(1), 'scp': r.u(1)}
    elif t == 0x56:
        n = r.u(2)
        out = {'t': t, 'res': res, 'uid': _txt(r.take(n)), 'info': r.take(r.left())}
    elif t == 0x58:
        idt, resp = r.u(1), r.u(1)
        n = r.u(2)
        prim = r.take(n)
        m = r.u(2)
        out = {'t': t, 'res': res, 'idtype': idt, 'resp': resp, 'primary': prim, 'secondary': r.take(m)}
    elif t == 0x59:
        n = r.u(2)
        out = {'t': t, 'res': res, 'response': r.take(n)}
    else:
        return {'t': t, 'res': res, 'data': body}
    r.done()
    return out


# --------------------------------------------------------------------------- build

def _item(t, res, body):
    return _p(t, 1) + _p(res, 1) + _p(len(body), 2) + body


def pad_ae(s, lead=0):
    raw = b' ' * lead + _etxt(s)
    if len(raw) > 16:
        raise RefError('AE title too long')
    return raw + b' ' * (16 - len(raw))


def build(tree, ae_lead=0):
    t = tree['pdu']
    if t in (1, 2):
        body = (_p(tree.get('version', 1), 2) + _p(tree.get('res2', 0), 2) +
                pad_ae(tree['called'], ae_lead) + pad_ae(tree['calling'], ae_lead) +
                tree.get('res3', b'\0' * 32) + b''.join(_build_item(i) for i in tree['items']))
        return _p(t, 1) + _p(tree.get('res1', 0), 1) + _p(len(body), 4) + body
    if t == 3:
        return bytes([3, tree.get('res1', 0)]) + _p(4, 4) + bytes([tree.get('res2', 0), tree['result'], tree['source'],
                                                                 tree['reason']])
    if t == 4:
        body = b''.join(_p(len(p['data']) + 1, 4) + _p(p['id'], 1) + p['data'] for p in tree['pdvs'])
        return bytes([4, tree.get('res', 0)]) + _p(len(body), 4) + body
    if t in (5, 6):
        return bytes([t, tree.get('res1', 0)]) + _p(4, 4) + _p(tree.get('res2', 0), 4)
    if t == 7:
        return bytes([7, tree.get('res1', 0)]) + _p(4, 4) + bytes([tree.get('res2', 0), tree.get('res3', 0),
                                                                 tree['source'], tree['reason']])
    raise RefError('cannot build PDU type %r' % t)


def _build_item(it):
    t = it['t']
    if t == 0x10:
        return _item(t, it.get('res', 0), _etxt(it['name']))
    if t == 0x20:
        body = bytes([it['id'], it.get('res2', 0), it.get('res3', 0), it.get('res4', 0)])
        body += _item(0x30, it['abs'].get('res', 0), _etxt(it['abs']['name']))
        body += b''.join(_item(0x40, ts.get('res', 0), _etxt(ts['name'])) for ts in it['ts'])
        return _item(t, it.get('res1', 0), body)
    if t == 0x21:
        body = bytes([it['id'], it.get('res2', 0), it['result'], it.get('res3', 0)])
        body += _item(0x40, it['ts'].get('res', 0), _etxt(it['ts']['name']))
        return _item(t, it.get('res1', 0), body)
    if t == 0x50:
        return _item(t, it.get('res', 0), b''.join(build_sub(s) for s in it['subs']))
    raise RefError('cannot build item %r' % t)


def build_sub(s):
    t, res = s['t'], s.get('res', 0)
    if t == 0x51:
        body = _p(s['max'], 4)
    elif t == 0x52:
        body = _etxt(s['uid'])
    elif t == 0x55:
        body = _etxt(s['name'])
    elif t == 0x53:
        body = _p(s['invoked'], 2) + _p(s['performed'], 2)
    elif t == 0x54:
        u = _etxt(s['uid'])
        body = _p(len(u), 2) + u + _p(s['scu'], 1) + _p(s['scp'], 1)
    elif t == 0x56:
        u = _etxt(s['uid'])
        body = _p(len(u), 2) + u + s['info']
    elif t == 0x58:
        body = (_p(s['idtype'], 1) + _p(s['resp'], 1) + _p(len(s['primary']), 2) + s['primary'] +
                _p(len(s['secondary']), 2) + s['secondary'])
    elif t == 0x59:
        body = _p(len(s['response']), 2) + s['response']
    else:
        body = s['data']
    return _item(t, res, body)


def split_stream(data):
    """Split a byte stream into complete PDUs (header-declared lengths); returns (pdus, leftover)."""
    out = []
    i = 0
    while len(data) - i >= 6:
        ln = _u(data[i + 2:i + 6])
        if len(data) - i < 6 + ln:
            break
        out.append(data[i:i + 6 + ln])
        i += 6 + ln
    return out, data[i:]


PDU_NAMES = {1: 'A-ASSOCIATE-RQ', 2: 'A-ASSOCIATE-AC', 3: 'A-ASSOCIATE-RJ', 4: 'P-DATA-TF', 5: 'A-RELEASE-RQ',
             6: 'A-RELEASE-RP', 7: 'A-ABORT'}


def selftest():
    """parse(build(t)) == t on a few trees: an oracle bug must surface as a harness error."""
    t = {'pdu': 1, 'res1': 0, 'version': 1, 'res2': 0, 'called': 'A', 'calling': 'BB', 'res3': b'\0' * 32,
         'items': [{'t': 0x10, 'res': 0, 'name': '1.2'},
                   {'t': 0x20, 'res1': 0, 'id': 1, 'res2': 0, 'res3': 0, 'res4': 0, 'abs': {'res': 0, 'name': '1.2.3'},
                    'ts': [{'res': 0, 'name': '1.2.840.10008.1.2'}]},
                   {'t': 0x50, 'res': 0, 'subs': [{'t': 0x51, 'res': 0, 'max': 16384},
                                                  {'t': 0x56, 'res': 0, 'uid': '1.2', 'info': b'ab'},
                                                  {'t': 0x58, 'res': 0, 'idtype': 2, 'resp': 0, 'primary': b'u',
                                                   'secondary': b'p'},
                                                  {'t': 0x57, 'res': 0, 'data': b'xyz'}]}]}
    p = parse(build(t))
    p.pop('called_raw'), p.pop('calling_raw')
    assert p == t, (p, t)
    for tt in ({'pdu': 3, 'res1': 0, 'res2': 0, 'result': 1, 'source': 2, 'reason': 3},
               {'pdu': 4, 'res': 0, 'pdvs': [{'id': 1, 'data': b'\x03abc'}, {'id': 3, 'data': b'\x02'}]},
               {'pdu': 5, 'res1': 0, 'res2': 0}, {'pdu': 7, 'res1': 0, 'res2': 0, 'res3': 0, 'source': 2, 'reason': 1}):
        assert parse(build(tt)) == tt, tt
