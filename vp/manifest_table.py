"""Data for tools/gen_manifest.py."""
HOOK_COMMITS = []
ENGINES = [
    {'name': 'E1', 'path': 'vp/run.py', 'serves_properties': [], 'kind_free_text':
     'bounded-exhaustive enumerator of structured inputs / operation sequences / configurations, executed on the real library functions, 16 worker processes'},
]
NOT_APPLICABLE = {}
CHECKS = {
    'C01': dict(engine='E1', level='exploration', design_ref='DESIGN.md 3/C01',
                technique='bounded-exhaustive enumeration of structured PDU values (every ordered adjacency of sub-item kinds, every item list up to length 3/4, field boundary grids), round trip on the real codecs',
                text='every PDU value of a declared finite grammar is encoded, decoded and re-encoded by the real classes and compared field by field; complete within the grids',
                note='grids, not all values; values built through the public constructors'),
    'C02': dict(engine='E1', level='exploration', design_ref='DESIGN.md 3/C02',
                technique='bounded-exhaustive enumeration of PDU values, differential against an independent length-driven reference codec in both directions',
                text='the whole C01 grammar plus reference-only encodings (sub-item permutations, unknown sub-items, padded titles) checked against a codec transcribed from PS3.8/PS3.7',
                note='trusts vp/ref_pdu.py (self-tested: parse(build(t)) == t on every case)'),
    'C18': dict(engine='E1', level='exploration', design_ref='DESIGN.md 3/C18',
                technique='exhaustive enumeration of all 65536 codes x 24 command classes + all add_status operation sequences to depth 2/3 against a reference dict model',
                text='complete enumeration of the finite input space (1.57 M Status constructions) and of every add_status history up to the depth bound; nothing is sampled',
                note='reference classification transcribed from PS3.7 Annex C and PS3.4; descriptions not constrained'),
}
