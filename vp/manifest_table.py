"""Data for tools/gen_manifest.py."""
HOOK_COMMITS = []
ENGINES = [
    {'name': 'E1', 'path': 'vp/run.py', 'serves_properties': [], 'kind_free_text':
     'bounded-exhaustive enumerator of structured inputs / operation sequences / configurations, executed on the real library functions, 16 worker processes'},
]
NOT_APPLICABLE = {}
CHECKS = {
    'C01': dict(engine='E1', level='exploration', design_ref='DESIGN.md 3/C01',
                technique='bounded-exhaustive enumeration of structured PDU values (every ordered adjacency of sub-item kinds, every item list up to length 3/4, field boundary grids), round trip on the real codecs',
                text='every PDU value of a declared finite grammar is encoded, decoded and re-encoded by the real classes and compared field by field; complete within the grids',
                note='grids, not all values; values built through the public constructors'),
    'C02': dict(engine='E1', level='exploration', design_ref='DESIGN.md 3/C02',
                technique='bounded-exhaustive enumeration of PDU values, differential against an independent length-driven reference codec in both directions',
                text='the whole C01 grammar plus reference-only encodings (sub-item permutations, unknown sub-items, padded titles) checked against a codec transcribed from PS3.8/PS3.7',
                note='trusts vp/ref_pdu.py (self-tested: parse(build(t)) == t on every case)'),
    'C06': dict(engine='E1', level='exploration', design_ref='DESIGN.md 3/C06',
                technique='bounded-exhaustive enumeration of (message class, data-set length, maximum PDU length, context id, source kind) on the real Association.send, oracle = reference fragmentation rules + reference codecs',
                text='every length 1..3F+2 for every maxlen 7..40 and every +-2 neighbourhood of kF at 2^k boundaries up to 2^32-1, for bytes / BytesIO / real file sources; complete within the grids',
                note='sizes capped at 200 kB; trusts vp/ref_cmd.py and vp/ref_pdu.py'),
    'C07': dict(engine='E1', level='exploration', design_ref='DESIGN.md 3/C07',
                technique='exhaustive enumeration of every composition (2^(n-1)) of the real fragment list into PDUs (deviation-bounded for n>12), on a fresh real DIMSEDecoder and through StateMachine.dt_2/ar_6',
                text='all 23 classes x data-set sizes around fragment multiples x every PDV grouping; completion flag checked after every PDU; file-backed reception checked against an independent Part-10 splitter and pydicom',
                note='fragments in protocol order; file-backed only for C-STORE-RQ; data sets produced with pydicom directly'),
    'C08': dict(engine='E1', level='exploration', design_ref='DESIGN.md 3/C08',
                technique='bounded-exhaustive enumeration of field values and of repeated-send operation sequences on the real Association.send, command sets parsed by an independent implicit-VR-LE reader',
                text='23 classes x UID lengths 1..64 x numeric boundary grid x every subset of unset fields x every sequence of <=2/3 changes between sends; complete within the grids',
                note='trusts vp/ref_cmd.py (PS3.7 E.1 dictionary); stub provider records the generator handed to dul.send'),
    'C09': dict(engine='E1', level='exploration', design_ref='DESIGN.md 3/C09',
                technique='exhaustive enumeration of (AE configuration, association request) pairs over a small universe on the real AssociationAcceptor.accept and _loop, oracle = reference negotiator',
                text='64 configurations x every request of <=2 contexts (3 abstract syntaxes x ordered TS lists) + reduced 3-4 context requests; reply, internal tables and later dispatch all compared with the reference',
                note='stub provider; request items in canonical order; reject reason codes unconstrained'),
    'C10': dict(engine='E1', level='exploration', design_ref='DESIGN.md 3/C10',
                technique='exhaustive enumeration of (local maximum, peer maximum) pairs over a 22-value boundary grid x both roles x message sizes around the fragment size, on the real accept/_request/send',
                text='all 484 pairs x 2 roles, each followed by real sends of F-1, F, F+1, 3F+2 byte messages checked for the peer limit and for complete transmission',
                note='stub provider; sizes capped at 200 kB'),
    'C18': dict(engine='E1', level='exploration', design_ref='DESIGN.md 3/C18',
                technique='exhaustive enumeration of all 65536 codes x 24 command classes + all add_status operation sequences to depth 2/3 against a reference dict model',
                text='complete enumeration of the finite input space (1.57 M Status constructions) and of every add_status history up to the depth bound; nothing is sampled',
                note='reference classification transcribed from PS3.7 Annex C and PS3.4; descriptions not constrained'),
}
