"""Data for tools/gen_manifest.py."""
HOOK_COMMITS = []
ENGINES = [
    {'name': 'E1', 'path': 'vp/run.py', 'serves_properties': [], 'kind_free_text':
     'bounded-exhaustive enumerator of structured inputs / operation sequences / configurations, executed on the real library functions, 16 worker processes'},
]
NOT_APPLICABLE = {}
CHECKS = {
    'C18': dict(engine='E1', level='exploration', design_ref='DESIGN.md 3/C18',
                technique='exhaustive enumeration of all 65536 codes x 24 command classes + all add_status operation sequences to depth 2/3 against a reference dict model',
                text='complete enumeration of the finite input space (1.57 M Status constructions) and of every add_status history up to the depth bound; nothing is sampled',
                note='reference classification transcribed from PS3.7 Annex C and PS3.4; descriptions not constrained'),
}
