"""DICOM PS3.8 section 9.2: the upper-layer state machine, transcribed from the standard
(Table 9-10 and the action definitions of Tables 9-6..9-9) - NOT from pynetdicom2/fsm.py.

This table is the single source of the generated TLA+ model (tools: vp/tlagen.py); the Python
checks never consult it directly for verdicts: they load TLC's dumped state graph.
"""

EVENTS = {
    1: 'A-ASSOCIATE request (local user)', 2: 'transport connect confirmation', 3: 'A-ASSOCIATE-AC PDU received',
    4: 'A-ASSOCIATE-RJ PDU received', 5: 'transport connection indication', 6: 'A-ASSOCIATE-RQ PDU received',
    7: 'A-ASSOCIATE response accept (local user)', 8: 'A-ASSOCIATE response reject (local user)',
    9: 'P-DATA request (local user)', 10: 'P-DATA-TF PDU received', 11: 'A-RELEASE request (local user)',
    12: 'A-RELEASE-RQ PDU received', 13: 'A-RELEASE-RP PDU received', 14: 'A-RELEASE response (local user)',
    15: 'A-ABORT request (local user)', 16: 'A-ABORT PDU received', 17: 'transport connection closed',
    18: 'ARTIM timer expired', 19: 'unrecognized or invalid PDU received',
}

# event -> {state: (action, next state)}; next state for AR-8 depends on the role: ('AR-8', (9, 10)) = (requestor, acceptor)
_ALL_ASSOC = (3, 5, 6, 7, 8, 9, 10, 11, 12)


def _row(special, default_states=_ALL_ASSOC, default=('AA-8', 13)):
    row = {s: default for s in default_states}
    row.update(special)
    return row


TABLE = {
    1: {1: ('AE-1', 4)},
    2: {4: ('AE-2', 5)},
    3: _row({2: ('AA-1', 13), 5: ('AE-3', 6), 13: ('AA-6', 13)}),
    4: _row({2: ('AA-1', 13), 5: ('AE-4', 1), 13: ('AA-6', 13)}),
    5: {1: ('AE-5', 2)},
    6: _row({2: ('AE-6', 3), 13: ('AA-7', 13)}),
    7: {3: ('AE-7', 6)},
    8: {3: ('AE-8', 13)},
    9: {6: ('DT-1', 6), 8: ('AR-7', 8)},
    10: _row({2: ('AA-1', 13), 6: ('DT-2', 6), 7: ('AR-6', 7), 13: ('AA-6', 13)}),
    11: {6: ('AR-1', 7)},
    12: _row({2: ('AA-1', 13), 6: ('AR-2', 8), 7: ('AR-8', (9, 10)), 13: ('AA-6', 13)}),
    13: _row({2: ('AA-1', 13), 7: ('AR-3', 1), 10: ('AR-10', 12), 11: ('AR-3', 1), 13: ('AA-6', 13)}),
    14: {8: ('AR-4', 13), 9: ('AR-9', 11), 12: ('AR-4', 13)},
    15: {3: ('AA-1', 13), 4: ('AA-2', 1), 5: ('AA-1', 13), 6: ('AA-1', 13), 7: ('AA-1', 13), 8: ('AA-1', 13),
         9: ('AA-1', 13), 10: ('AA-1', 13), 11: ('AA-1', 13), 12: ('AA-1', 13)},
    16: _row({2: ('AA-2', 1), 13: ('AA-2', 1)}, default=('AA-3', 1)),
    17: _row({2: ('AA-5', 1), 4: ('AA-4', 1), 13: ('AR-5', 1)}, default=('AA-4', 1)),
    18: {2: ('AA-2', 1), 13: ('AA-2', 1)},
    19: _row({2: ('AA-1', 13), 13: ('AA-7', 13)}),
}

# outputs of each action, in order.  'ind:DIMSE?' = indication iff the P-DATA completes a DIMSE message.
ACTIONS = {
    'AE-1': ['connect'],
    'AE-2': ['send:A-ASSOCIATE-RQ'],
    'AE-3': ['ind:A-ASSOCIATE-AC'],
    'AE-4': ['ind:A-ASSOCIATE-RJ', 'close'],
    'AE-5': ['artim:start'],
    'AE-6': ['artim:stop', 'ind:A-ASSOCIATE-RQ'],
    'AE-7': ['send:A-ASSOCIATE-AC'],
    'AE-8': ['send:A-ASSOCIATE-RJ', 'artim:start'],
    'DT-1': ['send:P-DATA-TF'],
    'DT-2': ['ind:DIMSE?'],
    'AR-1': ['send:A-RELEASE-RQ'],
    'AR-2': ['ind:A-RELEASE-RQ'],
    'AR-3': ['ind:A-RELEASE-RP', 'close'],
    'AR-4': ['send:A-RELEASE-RP', 'artim:start'],
    'AR-5': ['artim:stop'],
    'AR-6': ['ind:DIMSE?'],
    'AR-7': ['send:P-DATA-TF'],
    'AR-8': ['ind:A-RELEASE-RQ'],
    'AR-9': ['send:A-RELEASE-RP'],
    'AR-10': ['ind:A-RELEASE-RP'],
    'AA-1': ['send:A-ABORT', 'artim:start'],
    'AA-2': ['artim:stop', 'close'],
    'AA-3': ['ind:A-ABORT', 'close'],
    'AA-4': ['ind:A-P-ABORT'],
    'AA-5': ['artim:stop'],
    'AA-6': [],
    'AA-7': ['send:A-ABORT'],
    'AA-8': ['send:A-ABORT(provider)', 'ind:A-P-ABORT', 'artim:start'],
}

PEER_PDU_EVENTS = (3, 4, 6, 10, 12, 13, 16, 19)
USER_EVENTS = (1, 7, 8, 9, 11, 14, 15)


def defined_cells():
    return sum(len(v) for v in TABLE.values())


assert defined_cells() == 123, defined_cells()
