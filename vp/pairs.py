"""Catalogues of operation pairs for engine E4 (vp/e4.py): for every property whose code is a computation several threads may
be inside at the same time (provider threads of two associations encoding / decoding, service threads building messages, an
application thread configuring an entity or the status table while it is in use), every ordered pair of the catalogue is run
under every single pre-emption at library-line granularity; the outcome must be that of one of the two serial orders.

pairs_for(prop, tier) -> [(name, make)]   with make() -> {'a': callable, 'b': callable, 'post': ..., 'cleanup': ...}
"""
import io
import itertools
import os
import shutil
import tempfile

from . import common, e4, pdugen, ref_pdu, msggen, dsgen, stubs, assoc

IMPL = '1.2.840.10008.1.2'
EXPL = '1.2.840.10008.1.2.1'
CT = '1.2.840.10008.5.1.4.1.1.2'
MR = '1.2.840.10008.5.1.4.1.1.4'
VERIF = '1.2.840.10008.1.1'
FIND = '1.2.840.10008.5.1.4.1.2.1.1'
STUDY_FIND = '1.2.840.10008.5.1.4.1.2.2.1'


# --------------------------------------------------------------------------------------------- PDU codec (C01, C02)

def _pdu_trees():
    K = pdugen.sub_instances()
    subs1 = [{'t': 0x51, 'res': 0, 'max': 16384}, {'t': 0x52, 'res': 0, 'uid': '1.2.3.99'}]
    subs2 = [{'t': 0x51, 'res': 7, 'max': 0}, {'t': 0x52, 'res': 0, 'uid': '1.2.826.0.1.3680043.9.3811.1'}, {'t': 0x55, 'res': 0, 'name': 'OTHER-IMPL'}]
    t = {
        'rq-1': pdugen.assoc(1, [pdugen.app(), pdugen.pcrq(1, VERIF, (IMPL,)), pdugen.ui(subs1)], called='SCP', calling='SCU'),
        'rq-2': pdugen.assoc(1, [pdugen.app(), pdugen.pcrq(3, CT, (EXPL, IMPL), res=(1, 2, 3, 4)), pdugen.pcrq(5, MR, (IMPL,)), pdugen.ui(subs2, res=9)],
                             called='ARCHIVE-LONG-TTL', calling='MODALITY', res1=3),
        'ac-1': pdugen.assoc(2, [pdugen.app(), pdugen.pcac(1, 0, IMPL), pdugen.ui(subs1)], called='SCP', calling='SCU'),
        'ac-2': pdugen.assoc(2, [pdugen.app(), pdugen.pcac(3, 0, EXPL, res=(5, 6, 7)), pdugen.pcac(5, 3, IMPL), pdugen.ui(subs2)],
                             called='ARCHIVE-LONG-TTL', calling='MODALITY'),
        'rj-1': pdugen.rj(1, 1, 1), 'rj-2': pdugen.rj(2, 3, 2, res1=9, res2=8),
        'rel-rq': pdugen.release(5), 'rel-rp': pdugen.release(6, 1, 2 ** 31),
        'abort-00': pdugen.abort(0, 0), 'abort-26': pdugen.abort(2, 6, (1, 2, 3)),
        'pdata-1': pdugen.pdata([(1, b'\x03' + bytes(range(40)))]),
        'pdata-2': pdugen.pdata([(3, b'\x01' + b'A' * 17), (3, b'\x02' + b'B' * 5)], res=4),
    }
    return t


def _codec_pairs(tier, encode=True, decode=True):
    trees = _pdu_trees()
    names = sorted(trees)
    fam = lambda n: n.split('-')[0]
    out = []
    ops = []
    if encode:
        ops += [('enc', n) for n in names]
    if decode:
        ops += [('dec', n) for n in names]
    for (ka, na), (kb, nb) in itertools.product(ops, ops):
        if (ka, na) == (kb, nb):
            continue
        if tier == 'quick' and not (fam(na) == fam(nb) or {fam(na), fam(nb)} in ({'rq', 'ac'}, {'rel', 'abort'}, {'rj', 'abort'})):
            continue

        def make(ka=ka, na=na, kb=kb, nb=nb):
            def op(kind, name):
                tree = trees[name]
                if kind == 'enc':
                    obj = pdugen.from_tree(tree)
                    return lambda: obj.encode()
                raw = ref_pdu.build(tree)
                cls = type(pdugen.from_tree(tree))
                return lambda: repr(sorted(pdugen.to_tree(cls.decode(raw)).items(), key=lambda kv: kv[0]))
            return {'a': op(ka, na), 'b': op(kb, nb)}
        out.append(('%s:%s|%s:%s' % (ka, na, kb, nb), make))
    return out


# --------------------------------------------------------------------------------------------- DIMSE messages (C06, C08)

def _msg_specs():
    return {
        'store-big': lambda: msggen.make('CStoreRQMessage', sop_class=CT, sop_inst='1.2.3.4.5.6', msg_id=7, data_set=bytes(range(200)) * 2),
        'store-file': lambda: msggen.make('CStoreRQMessage', sop_class=MR, sop_inst='1.2.3.9', msg_id=8, data_set=io.BytesIO(b'F' * 333)),
        'find-rsp': lambda: msggen.make('CFindRSPMessage', sop_class=FIND, msg_id=300, status=0xFF00, data_set=b'\x10\x00\x10\x00\x04\x00\x00\x00ABCD'),
        'echo-rsp': lambda: msggen.make('CEchoRSPMessage', sop_class=VERIF, msg_id=65535, status=0),
        'move-rsp': lambda: msggen.make('CMoveRSPMessage', sop_class='1.2.840.10008.5.1.4.1.2.1.2', msg_id=1, status=0xFF00, counters=(9, 8, 7, 6)),
        'naction-rq': lambda: msggen.make('NActionRQMessage', sop_class='1.2.840.10008.1.20.1', sop_inst='1.2.840.10008.1.20.1.1', msg_id=2,
                                          data_set=b'\x08\x00\x18\x00\x02\x00\x00\x001.'),
    }


def _send_pairs(tier):
    """Two associations (own stub provider each) sending at the same time: Association.send = set_length + encode."""
    specs = _msg_specs()
    names = sorted(specs)
    out = []
    for na, nb in itertools.product(names, names):
        if tier == 'quick' and na != nb and not ({na, nb} & {'store-big', 'find-rsp'}):
            continue
        for ml in ((64, 16384) if (na == nb or tier == 'thorough') else (64,)):
            def make(na=na, nb=nb, ml=ml):
                from pynetdicom2 import asceprovider

                def op(name, pc):
                    msg = specs[name]()
                    with stubs.patched_dul():
                        a = asceprovider.Association(stubs.FakeAE(), None, ml)

                    def run():
                        a.send(msg, pc)
                        return b''.join(p.encode() for p in a.dul.sent[-1])
                    return run
                return {'a': op(na, 1), 'b': op(nb, 3)}
            out.append(('send:%s|%s@%d' % (na, nb, ml), make))
    return out


# --------------------------------------------------------------------------------------------- reassembly into files (C07)

def _decode_pairs(tier):
    """Two provider threads of one entity reassembling C-STORE requests into files (AEBase.get_file -> write_meta) at the same time."""
    out = []
    combos = [((CT, '1.2.3.1', IMPL, 30), (MR, '1.2.3.2', EXPL, 90)), ((CT, '1.2.3.1', IMPL, 30), (CT, '1.2.3.1', IMPL, 30)),
              ((MR, '1.2.3.7', EXPL, 5), (CT, '1.2.3.8', EXPL, 400))]
    for ci, (sa, sb) in enumerate(combos if tier == 'thorough' else combos[:2]):
        for mode in ('tempfile', 'directory'):
            def make(sa=sa, sb=sb, mode=mode):
                import pynetdicom2
                from pynetdicom2 import fsm, applicationentity, asceprovider, pdu as P
                from pydicom import uid
                tmp = tempfile.mkdtemp(prefix='vp_pairs_', dir=os.environ.get('VP_TMP') or None)
                ae = applicationentity.ClientAE('VERIF') if mode == 'tempfile' else pynetdicom2.ClientStorageAE(tmp, 'VERIF')
                ae.add_scu(assoc.Recorder('file', [CT, MR], store_in_file=True))

                def op(spec, pc):
                    sop, inst, ts, pad = spec
                    raw = dsgen.enc(dsgen.make(('pad', pad), pad, sop_class=sop, inst=inst), ts)
                    msg = msggen.make('CStoreRQMessage', sop_class=sop, sop_inst=inst, msg_id=pc, data_set=raw)
                    msg.set_length()
                    wire = [p.encode() for p in msg.encode(pc, 64)]
                    dec = fsm.DIMSEDecoder({pc: asceprovider.PContextDef(pc, uid.UID(sop), uid.UID(ts))}, ae.store_in_file, ae.get_file)

                    def run():
                        for w in wire:
                            dec.process(P.PDataTfPDU.decode(w))
                        if dec.receiving:
                            return 'incomplete'
                        fp = dec.msg.data_set
                        content = fp.read()
                        fp.close()
                        cs = sorted((int(e.tag), str(e.value)) for e in dec.msg.command_set)
                        # the directory-backed entity names files after the instance: the name may legitimately differ by a suffix
                        return (cs, content, content.endswith(raw))
                    return run
                return {'a': op(sa, 1), 'b': op(sb, 3), 'cleanup': lambda: shutil.rmtree(tmp, ignore_errors=True)}
            out.append(('decode-to-file:%d:%s' % (ci, mode), make))
    return out


# --------------------------------------------------------------------------------------------- status table (C18)

def _status_pairs(tier):
    out = []
    regs = {
        'single-general': (lambda st, dm: st.add_status(0x1234, 'Warning', 'verif single')),
        'range-general': (lambda st, dm: st.add_status(0x3000, 'Failure', 'verif range', end=0x3004)),
        'single-cmd': (lambda st, dm: st.add_status(0x1235, 'Warning', 'verif cmd', command=dm.CStoreRSPMessage)),
        'range-cmd': (lambda st, dm: st.add_status(0x3100, 'Failure', 'verif cmd range', end=0x3102, command=dm.CFindRSPMessage)),
    }
    # (one library call per operation: only a single call can be expected to be atomic)
    looks = {
        'look-pending': (lambda st, dm: (str(st.Status(0xFF01, dm.CFindRSPMessage)), st.Status(0xFF01, dm.CFindRSPMessage).is_pending)),
        'look-cancel': (lambda st, dm: str(st.Status(0xFE00, dm.CMoveRSPMessage))),
        'look-new-single': (lambda st, dm: str(st.Status(0x1234, dm.CStoreRSPMessage))),
        'look-new-range': (lambda st, dm: str(st.Status(0x3002, None))),
    }
    ops = dict(regs)
    ops.update(looks)
    probe = lambda st, dm: repr([(c, k.__name__ if k else None, str(st.Status(c, k)), st.Status(c, k).status_type) for c in (0x1234, 0x1235, 0x3000, 0x3002, 0x3004, 0x3100, 0x3102, 0xFF00, 0)
                                 for k in (None, dm.CStoreRSPMessage, dm.CFindRSPMessage)])
    for na, nb in itertools.product(sorted(ops), sorted(ops)):
        if na in looks and nb in looks:
            continue
        if na == nb:
            continue

        def make(na=na, nb=nb):
            import copy
            from pynetdicom2 import statuses as st, dimsemessages as dm
            saved = {k: copy.deepcopy(v) for k, v in vars(st).items() if isinstance(v, (dict, list, set)) and not k.startswith('__')}

            def cleanup():
                for k, v in saved.items():
                    setattr(st, k, v)
            return {'a': lambda: ops[na](st, dm), 'b': lambda: ops[nb](st, dm), 'post': lambda: probe(st, dm), 'cleanup': cleanup}
        out.append(('status:%s|%s' % (na, nb), make))
    return out


# --------------------------------------------------------------------------------------------- entity configuration vs. use (C09, C11)

def _entity_pairs(tier):
    out = []

    def make_req():
        from pynetdicom2 import applicationentity, asceprovider
        ae = applicationentity.ClientAE('LOCAL', [IMPL], 16384).add_scu(assoc.Recorder('one', [VERIF]))
        remote = {'aet': 'REMOTE', 'address': 'h', 'port': 1}

        def new_assoc():
            with stubs.patched_dul():
                rq = asceprovider.AssociationRequester(ae, ae.max_pdu_length, remote)
            return sorted((k, str(v.sop_class)) for k, v in rq.context_def_list.items())

        def configure():
            ae.add_scu(assoc.Recorder('two', [CT, MR]))
            return sorted(ae.context_def_list)
        # afterwards (both threads done) a new association proposes everything that was configured
        return {'a': new_assoc, 'b': configure, 'post': new_assoc}
    out.append(('entity:new-association|add_scu', make_req))

    def make_req2():
        from pynetdicom2 import applicationentity, asceprovider
        ae = applicationentity.ClientAE('LOCAL', [IMPL], 16384).add_scu(assoc.Recorder('one', [VERIF]))
        remote = {'aet': 'REMOTE', 'address': 'h', 'port': 1}

        def request(tag):
            def run():
                with stubs.patched_dul():
                    rq = asceprovider.AssociationRequester(ae, ae.max_pdu_length, dict(remote, aet='REMOTE' + tag))
                rq.dul.inbox.append(assoc.decode_pdu(assoc.ac_tree([(1, 0, IMPL)], max_len=1024 if tag == 'A' else 0)))
                rq.request()
                sent = [p for p in rq.dul.sent if getattr(p, 'pdu_type', None) == 1]
                return (sent[0].encode(), rq.max_pdu_length, sorted(rq.accepted_contexts))
            return run
        return {'a': request('A'), 'b': request('B')}
    out.append(('entity:request|request', make_req2))

    def make_acc():
        ae = assoc.make_ae('SCP', [IMPL, EXPL], 16384, [assoc.Recorder('svc', [VERIF, CT])])

        def accept(tag):
            def run():
                acc = assoc.make_acceptor(ae)
                ctxs = [(1, VERIF, [IMPL])] if tag == 'A' else [(1, CT, [EXPL, IMPL]), (3, MR, [IMPL])]
                acc.accept(assoc.decode_pdu(assoc.rq_tree(ctxs, max_len=256 if tag == 'A' else 0, calling='SCU' + tag)))
                ac = [p for p in acc.dul.sent if getattr(p, 'pdu_type', None) == 2]
                return (ac[0].encode(), acc.max_pdu_length, sorted((k, str(v.sop_class), str(v.supported_ts)) for k, v in acc.accepted_contexts.items()))
            return run
        return {'a': accept('A'), 'b': accept('B')}
    out.append(('entity:accept|accept', make_acc))
    return out


# --------------------------------------------------------------------------------------------- service users / providers (C16, C17, C20)

def _service_pairs(tier):
    out = []

    def make_find():
        from pynetdicom2 import applicationentity, asceprovider, sopclass
        from pydicom import uid
        cae = applicationentity.ClientAE('SCU', [IMPL]).add_scu(sopclass.qr_find_scu)

        def query(name, msg_id):
            with stubs.patched_dul():
                rq = asceprovider.AssociationRequester(cae, 16384, {'aet': 'X', 'address': 'h', 'port': 1})
            rq.sop_classes_as_scu[uid.UID(FIND)] = (1, uid.UID(IMPL))
            q = dsgen.make('query')
            q.PatientName = name
            rq.dul.inbox.append((msggen.make('CFindRSPMessage', sop_class=FIND, msg_id=msg_id, status=0), 1))

            def run():
                got = list(rq.get_scu(FIND)(q, msg_id))
                return (b''.join(p.encode() for p in rq.dul.sent[-1]), len(got))
            return run
        return {'a': query('ALPHA*', 11), 'b': query('BRAVO^LONGER*', 12)}
    out.append(('service:find-user|find-user', make_find))

    def make_scp(kind):
        def make():
            from pynetdicom2 import sopclass, statuses, applicationentity

            class SvcAE(applicationentity.AE):
                def on_receive_echo(self, context):
                    return statuses.SUCCESS

                def on_receive_store(self, context, ds):
                    return statuses.SUCCESS

                def on_receive_find(self, context, ds):
                    return iter([(dsgen.make('a', i), statuses.C_FIND_PENDING) for i in range(2)])
            sae = assoc.make_ae('SCP', [IMPL], 65536, [sopclass.verification_scp, sopclass.storage_scp, sopclass.qr_find_scp], cls=SvcAE)
            cae = applicationentity.ClientAE('SCU', [IMPL])

            def serve(tag):
                pc, mid = (1, 100) if tag == 'A' else (3, 65000)
                sop, req = {
                    'echo': (VERIF, lambda: msggen.make('CEchoRQMessage', sop_class=VERIF, msg_id=mid)),
                    'store': (CT, lambda: msggen.make('CStoreRQMessage', sop_class=CT, sop_inst='1.2.3.' + tag + '9'.replace('A', '1').replace('B', '2'), msg_id=mid,
                                                      data_set=dsgen.enc(dsgen.make('a'), IMPL))),
                    'find': (FIND, lambda: msggen.make('CFindRQMessage', sop_class=FIND, msg_id=mid, data_set=dsgen.enc(dsgen.make('query'), IMPL))),
                }[kind]
                link = assoc.Link(sae, cae, {pc: (sop, IMPL)})
                link.scu.send(req(), pc)

                def run():
                    link.serve()
                    return [b''.join(p.encode() for p in i) for d, i in link.log if d == 'scp->scu' and isinstance(i, list)]
                return run
            return {'a': serve('A'), 'b': serve('B')}
        return make
    for kind in ('echo', 'store', 'find'):
        out.append(('service:%s-provider|%s-provider' % (kind, kind), make_scp(kind)))

    def make_ids():
        import pynetdicom2

        def ids(n):
            def run():
                got = [pynetdicom2._new_msg_id() for _ in range(n)]
                if len(set(got)) != n or not all(isinstance(x, int) and 0 <= x < 65536 for x in got):
                    raise AssertionError('message ids handed out in one thread: %r' % (got,))
                return n
            return run
        return {'a': ids(3), 'b': ids(2)}
    out.append(('service:message-ids', make_ids))
    return out


CATALOGUE = {
    'C01': lambda tier: _codec_pairs(tier),
    'C02': lambda tier: [p for p in _codec_pairs(tier) if p[0].count('enc:') == 2 or p[0].count('dec:') == 2],
    'C06': _send_pairs,
    'C08': _send_pairs,
    'C07': _decode_pairs,
    'C18': _status_pairs,
    'C11': _entity_pairs,
    'C09': _entity_pairs,
    'C16': lambda tier: [p for p in _service_pairs(tier) if 'find' in p[0] or 'message-ids' in p[0]],
    'C17': lambda tier: [p for p in _service_pairs(tier) if 'provider' in p[0]],
    'C20': lambda tier: _service_pairs(tier) + _entity_pairs(tier),
}


def names_for(prop, tier):
    return [n for n, _ in CATALOGUE[prop](tier)]


def run_case(case, prefix_sig=''):
    """case = {'pair': name, 'prop': ..., 'tier': ...[, 'direction', 'k']}"""
    common.import_repo()
    make = dict(CATALOGUE[case['prop']](case.get('tier', 'quick')))[case['pair']]
    sig = '%s:pair:%s' % (case['prop'].lower(), case['pair'].split('@')[0])
    if 'k' in case:
        # replay of one schedule
        allowed = e4.explore_pair(make, max_points=0)['allowed']
        m = make()
        first, second = (m['a'], m['b']) if case['direction'] == 'a-preempted-by-b' else (m['b'], m['a'])
        r1, r2, n, reached, where = e4.run_pair(first, second, case['k'])
        ra, rb = (r1, r2) if case['direction'] == 'a-preempted-by-b' else (r2, r1)
        post = e4._call(m['post']) if m.get('post') else None
        if m.get('cleanup'):
            m['cleanup']()
        o = (ra, rb, post)
        viol = []
        if o not in allowed:
            viol.append((sig, _describe(case['pair'], case['direction'], case['k'], where, o, allowed)))
        return {'viol': viol, 'case': case}
    res = e4.explore_pair(make)
    viol = []
    rc = None
    if res['serial_errors']:
        viol.append((sig + ':serial', 'operations %s, one after the other, each in a fresh thread: %s' % (case['pair'], common.short(res['serial_errors'][0], 300))))
        rc = dict(case)
    if res['mismatches']:
        direction, k, where, o = res['mismatches'][0]
        viol.append((sig, _describe(case['pair'], direction, k, where, o, res['allowed']) + ' [%d of %d schedules differ]' % (
            len(res['mismatches']), res['executions'] - 2)))
        rc = dict(case, direction=direction, k=k)
    return {'viol': viol, 'case': rc, 'stats': {'schedules': res['executions'], 'points': sum(res['points']), 'capped': res['capped']}}


def _describe(pair, direction, k, where, o, allowed):
    def short(x):
        return common.short(x, 220)
    diff = []
    for i, lab in enumerate(('first operation', 'second operation', 'state afterwards')):
        if all(o[i] != a[i] for a in allowed):
            diff.append('%s gave %s, serially %s' % (lab, short(o[i]), short(allowed[0][i])))
    return ('operations %s in two threads, %s at its library line #%d (%s): the outcome is that of neither serial order: %s' % (
        pair, direction.replace('-', ' '), k, where, '; '.join(diff) or short(o)))


def extend(rep, prop, tier, seed):
    cs = [{'pair': n, 'prop': prop, 'tier': tier} for n in names_for(prop, tier)]
    tot = {'schedules': 0, 'points': 0, 'pairs': 0, 'capped': 0}
    for res in common.pmap('vp.pairs', 'run_case', cs, chunk=1):
        for s, m in res['viol']:
            rep.add(common.Viol(s, m, res['case']))
        st = res.get('stats', {})
        tot['schedules'] += st.get('schedules', 0)
        tot['points'] += st.get('points', 0)
        tot['capped'] += 1 if st.get('capped') else 0
        tot['pairs'] += 1
    rep.coverage['concurrent_pairs'] = {
        'what': 'engine E4: every ordered pair of the operation catalogue in two real threads, every single pre-emption at the granularity of '
                'pynetdicom2 source lines (both directions); outcome must equal one of the two serial orders',
        'pairs': tot['pairs'], 'schedules': tot['schedules'], 'preemption_points': tot['points'], 'pairs_capped': tot['capped'],
        'operations': sorted(set(x for n in names_for(prop, tier) for x in n.split('@')[0].split(':', 1)[1].split('|')))[:40]}
    rep.coverage['schedules'] = rep.coverage.get('schedules', 0) + tot['schedules']
