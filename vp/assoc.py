"""Helpers to drive the association layer (asceprovider / applicationentity / sopclass) over a
StubDUL, without sockets or provider threads."""
import io

from . import stubs, ref_pdu, pdugen


class FakeRequest(object):
    """Stands in for the accepted client socket handed to the StreamRequestHandler."""
    def makefile(self, *a, **k):
        return io.BytesIO()

    def sendall(self, data):
        pass

    def close(self):
        pass

    def settimeout(self, t):
        pass

    def setsockopt(self, *a):
        pass


def make_acceptor(ae, max_pdu_length=None):
    """A real AssociationAcceptor bound to `ae`, with StubDUL as provider, whose handle() has not run."""
    from pynetdicom2 import asceprovider
    cls = asceprovider.AssociationAcceptor
    if 'handle' not in vars(cls):
        from .common import HarnessError
        raise HarnessError('AssociationAcceptor.handle missing')
    orig = cls.handle
    cls.handle = lambda self: None
    try:
        with stubs.patched_dul():
            acc = cls(FakeRequest(), ('peer', 0), ae, ae.max_pdu_length if max_pdu_length is None else max_pdu_length)
    finally:
        cls.handle = orig
    return acc


def make_ae(title='SCP', supported_ts=None, max_pdu_length=65536, services=()):
    from pynetdicom2 import applicationentity
    ae = applicationentity.AE(title, 0, supported_ts, max_pdu_length, bind_and_activate=False)
    ae.server_close()
    for svc in services:
        ae.add_scp(svc)
    return ae


def decode_pdu(tree):
    """Library PDU object for a reference tree, produced the way a provider would: from wire bytes."""
    from pynetdicom2 import pdu as P
    cls = {1: P.AAssociateRqPDU, 2: P.AAssociateAcPDU, 3: P.AAssociateRjPDU, 4: P.PDataTfPDU, 5: P.AReleaseRqPDU,
           6: P.AReleaseRpPDU, 7: P.AAbortPDU}[tree['pdu']]
    return cls.decode(ref_pdu.build(tree))


def rq_tree(contexts, max_len=16384, called='SCP', calling='SCU', extra_subs=(), ml_first=True):
    """contexts: list of (id, abstract, [ts...])"""
    subs = [{'t': 0x51, 'res': 0, 'max': max_len}, {'t': 0x52, 'res': 0, 'uid': '1.2.3.99'}]
    if not ml_first:
        subs.reverse()
    subs += list(extra_subs)
    return pdugen.assoc(1, [pdugen.app()] + [pdugen.pcrq(cid, a, ts) for cid, a, ts in contexts] + [pdugen.ui(subs)],
                        called=called, calling=calling)


def ac_tree(contexts, max_len=16384, called='SCP', calling='SCU', with_ml=True, extra_items=()):
    """contexts: list of (id, result, ts)"""
    subs = ([{'t': 0x51, 'res': 0, 'max': max_len}] if with_ml else []) + [{'t': 0x52, 'res': 0, 'uid': '1.2.3.98'}]
    return pdugen.assoc(2, [pdugen.app()] + [pdugen.pcac(cid, r, ts) for cid, r, ts in contexts] + list(extra_items) +
                        [pdugen.ui(subs)], called=called, calling=calling)


class Recorder(object):
    """A recording SCP/SCU service callable with a sop_classes attribute."""
    def __init__(self, name, sop_classes, store_in_file=False):
        self.name = name
        self.sop_classes = list(sop_classes)
        self.calls = []
        if store_in_file:
            self.store_in_file = True

    def __call__(self, asce, ctx, *args, **kw):
        self.calls.append((asce, ctx, args))
        return ('called', self.name, ctx)
