"""Helpers to drive the association layer (asceprovider / applicationentity / sopclass) over a
StubDUL, without sockets or provider threads."""
import io

from . import stubs, ref_pdu, pdugen


class FakeRequest(object):
    """Stands in for the accepted client socket handed to the StreamRequestHandler."""
    def makefile(self, *a, **k):
        return io.BytesIO()

    def sendall(self, data):
        pass

    def close(self):
        pass

    def settimeout(self, t):
        pass

    def setsockopt(self, *a):
        pass


def make_acceptor(ae, max_pdu_length=None):
    """A real AssociationAcceptor bound to `ae`, with StubDUL as provider, whose handle() has not run."""
    from pynetdicom2 import asceprovider
    cls = asceprovider.AssociationAcceptor
    if 'handle' not in vars(cls):
        from .common import HarnessError
        raise HarnessError('AssociationAcceptor.handle missing')
    orig = cls.handle
    cls.handle = lambda self: None
    try:
        with stubs.patched_dul():
            if max_pdu_length is None and getattr(ae, 'RequestHandlerClass', None) is not None:
                # the way socketserver's finish_request() creates it: through the entity's handler factory
                acc = ae.RequestHandlerClass(FakeRequest(), ('peer', 0), ae)
            else:
                acc = cls(FakeRequest(), ('peer', 0), ae, ae.max_pdu_length if max_pdu_length is None else max_pdu_length)
    finally:
        cls.handle = orig
    return acc


def make_ae(title='SCP', supported_ts=None, max_pdu_length=65536, services=(), cls=None):
    from pynetdicom2 import applicationentity
    ae = (cls or applicationentity.AE)(title, 0, supported_ts, max_pdu_length, bind_and_activate=False)
    ae.server_close()
    for svc in services:
        ae.add_scp(svc)
    return ae


def decode_pdu(tree):
    """Library PDU object for a reference tree, produced the way a provider would: from wire bytes."""
    from pynetdicom2 import pdu as P
    cls = {1: P.AAssociateRqPDU, 2: P.AAssociateAcPDU, 3: P.AAssociateRjPDU, 4: P.PDataTfPDU, 5: P.AReleaseRqPDU,
           6: P.AReleaseRpPDU, 7: P.AAbortPDU}[tree['pdu']]
    return cls.decode(ref_pdu.build(tree))


def rq_tree(contexts, max_len=16384, called='SCP', calling='SCU', extra_subs=(), ml_first=True):
    """contexts: list of (id, abstract, [ts...])"""
    subs = [{'t': 0x51, 'res': 0, 'max': max_len}, {'t': 0x52, 'res': 0, 'uid': '1.2.3.99'}]
    if not ml_first:
        subs.reverse()
    subs += list(extra_subs)
    return pdugen.assoc(1, [pdugen.app()] + [pdugen.pcrq(cid, a, ts) for cid, a, ts in contexts] + [pdugen.ui(subs)],
                        called=called, calling=calling)


def ac_tree(contexts, max_len=16384, called='SCP', calling='SCU', with_ml=True, extra_items=()):
    """contexts: list of (id, result, ts)"""
    subs = ([{'t': 0x51, 'res': 0, 'max': max_len}] if with_ml else []) + [{'t': 0x52, 'res': 0, 'uid': '1.2.3.98'}]
    return pdugen.assoc(2, [pdugen.app()] + [pdugen.pcac(cid, r, ts) for cid, r, ts in contexts] + list(extra_items) +
                        [pdugen.ui(subs)], called=called, calling=calling)


class Recorder(object):
    """A recording SCP/SCU service callable with a sop_classes attribute."""
    def __init__(self, name, sop_classes, store_in_file=False):
        self.name = name
        self.sop_classes = list(sop_classes)
        self.calls = []
        if store_in_file:
            self.store_in_file = True

    def __call__(self, asce, ctx, *args, **kw):
        self.calls.append((asce, ctx, args))
        return ('called', self.name, ctx)


class Link(object):
    """A negotiated association pair over two StubDULs: what one side hands to its provider is
    encoded, decoded and reassembled by a real DIMSEDecoder into the other side's receive queue.
    The acceptor side is served lazily: when the requester waits for a message and none is queued,
    the acceptor's real _loop() is run on whatever requests are pending."""

    def __init__(self, server_ae, client_ae, contexts, server_max=16384, client_max=16384, remote=None):
        """contexts: {pc_id: (sop_class, ts)} regarded as accepted by both sides."""
        from pynetdicom2 import asceprovider
        from pydicom import uid
        self.scp = make_acceptor(server_ae, server_max)
        with stubs.patched_dul():
            self.scu = asceprovider.AssociationRequester(
                client_ae, client_max, remote or {'aet': 'SCP', 'address': 'peer', 'port': 104})
        self.log = []          # (direction, item) for everything handed to a provider
        self.serving = False
        self.wire(contexts)

    def wire(self, contexts):
        from pynetdicom2 import asceprovider
        from pydicom import uid
        for pc, (sop, ts) in contexts.items():
            ctx = asceprovider.PContextDef(pc, uid.UID(sop), uid.UID(ts))
            self.scp.sop_classes_as_scp[pc] = (pc, uid.UID(sop), uid.UID(ts))
            self.scp.accepted_contexts[pc] = ctx
            self.scu.sop_classes_as_scu[uid.UID(sop)] = (pc, uid.UID(ts))
            self.scu.accepted_contexts[pc] = ctx
        self.scp.dul.accepted_contexts = self.scp.accepted_contexts
        self.scu.dul.accepted_contexts = self.scu.accepted_contexts
        self.scp.association_established = self.scu.association_established = True
        self.scp.dul.on_send = lambda dul, item: self._deliver('scp->scu', self.scu, item)
        self.scu.dul.on_send = lambda dul, item: self._deliver('scu->scp', self.scp, item)
        self.scu.dul.pump = self.serve
        self.scp.dul.pump = None

    def _deliver(self, direction, dst, item):
        from pynetdicom2 import fsm, pdu as P
        self.log.append((direction, item))
        if hasattr(item, 'pdu_type'):
            dst.dul.inbox.append(type(item).decode(item.encode()))
            return
        dec = fsm.DIMSEDecoder(dst.accepted_contexts, dst.ae.store_in_file, dst.ae.get_file)
        for p in item:
            dec.process(P.PDataTfPDU.decode(p.encode()))
            if not dec.receiving:
                dst.dul.inbox.append((dec.msg, dec.pc_id))
                dec = fsm.DIMSEDecoder(dst.accepted_contexts, dst.ae.store_in_file, dst.ae.get_file)

    def serve(self):
        """Run the acceptor's real dispatch loop on its pending requests (re-entrancy guarded)."""
        from pynetdicom2 import exceptions, pdu as P
        if self.serving or not self.scp.dul.inbox:
            return
        self.serving = True
        try:
            head = self.scp.dul.inbox[0]
            if getattr(head, 'pdu_type', None) == 5:
                self.scp.dul.inbox.popleft()
                self.scu.dul.inbox.append(P.AReleaseRpPDU())
                return
            self.scp.is_killed = False
            try:
                self.scp._loop()
            except exceptions.DCMTimeoutError:
                pass
        finally:
            self.serving = False
