"""Factory for DIMSE message objects of all 23 classes, built through the public classes."""
from . import ref_cmd

CLASS_NAMES = sorted(ref_cmd.COMMAND_FIELD, key=lambda n: ref_cmd.COMMAND_FIELD[n])

VR = {kw: vr for _, (kw, vr) in ref_cmd.CMD_DICT.items()}


def msg_class(name):
    from pynetdicom2 import dimsemessages
    return getattr(dimsemessages, name)


def make(name, sop_class='1.2.840.10008.1.1', sop_inst='1.2.3.4', msg_id=1, status=0, priority=0, counters=(3, 2, 1, 0),
         unset=(), aet='DEST', data_set=None):
    """Build a message of class `name` with every command field given a value (fields in `unset`
    keep the constructor's empty default)."""
    cls = msg_class(name)
    msg = cls()
    cs = msg.command_set
    vals = {
        'AffectedSOPClassUID': sop_class, 'RequestedSOPClassUID': sop_class,
        'AffectedSOPInstanceUID': sop_inst, 'RequestedSOPInstanceUID': sop_inst,
        'MessageID': msg_id, 'MessageIDBeingRespondedTo': msg_id, 'Status': status, 'Priority': priority,
        'MoveDestination': aet, 'MoveOriginatorApplicationEntityTitle': aet, 'MoveOriginatorMessageID': msg_id,
        'EventTypeID': 1, 'ActionTypeID': 1, 'AttributeIdentifierList': [0x00100010, 0x00100020],
        'NumberOfRemainingSuboperations': counters[0], 'NumberOfCompletedSuboperations': counters[1],
        'NumberOfFailedSuboperations': counters[2], 'NumberOfWarningSuboperations': counters[3],
    }
    for kw in cls.command_fields:
        if kw == 'CommandGroupLength' or kw in unset or kw not in vals:
            continue        # (elements the constructor itself manages are left alone)
        setattr(cs, kw, vals[kw])
    if data_set is not None:
        msg.data_set = data_set
    return msg


def optional_fields(name):
    cls = msg_class(name)
    return [kw for kw in cls.command_fields if kw not in ('CommandGroupLength',)]


def collect(pdus):
    """Concatenate command and data fragments of a list of PDataTfPDU objects -> (cmd, data, flags)
    where flags is the list of (context id, control header, payload length, pdu_length)."""
    cmd, data, flags = [], [], []
    for p in pdus:
        for it in p.data_value_items:
            hdr = it.data_value[0] if it.data_value else None
            flags.append((it.context_id, hdr, len(it.data_value) - 1, p.pdu_length))
            if hdr in (1, 3):
                cmd.append(it.data_value[1:])
            elif hdr in (0, 2):
                data.append(it.data_value[1:])
    return b''.join(cmd), b''.join(data), flags
