"""Deterministic data sets, encoded with pydicom directly (independent of pynetdicom2.dsutils)."""


def enc(ds, ts):
    from pydicom.filebase import DicomBytesIO
    from pydicom import filewriter, uid
    fp = DicomBytesIO()
    t = uid.UID(ts)
    fp.is_implicit_VR, fp.is_little_endian = t.is_implicit_VR, t.is_little_endian
    filewriter.write_dataset(fp, ds)
    return fp.parent.getvalue()


def dec(raw, ts):
    import io
    from pydicom import filereader, uid
    t = uid.UID(ts)
    return filereader.read_dataset(io.BytesIO(raw), t.is_implicit_VR, t.is_little_endian)


def make(kind, seed=0, sop_class='1.2.840.10008.5.1.4.1.1.2', inst='1.2.3.4'):
    """kind: 'a' small, 'b' small with odd-length values, 'big' ~1.2 kB, 'seq' nested sequence, 'query', 'empty',
    or ('pad', n) with an n-byte private payload."""
    import pydicom
    ds = pydicom.Dataset()
    if kind == 'empty':
        return ds
    if kind == 'query':
        ds.QueryRetrieveLevel = 'PATIENT'
        ds.PatientName = '*'
        ds.PatientID = ''
        return ds
    if kind == 'query2':
        ds.QueryRetrieveLevel = 'STUDY'
        ds.PatientName = 'Doe^J*'
        ds.StudyInstanceUID = ''
        ds.StudyDate = '20200101-20201231'
        return ds
    ds.SOPClassUID = sop_class
    ds.SOPInstanceUID = inst
    ds.PatientName = {'a': 'Alpha^A', 'b': 'Bravo^Bob', 'big': 'Charlie^Big', 'seq': 'Delta^Seq'}.get(kind, 'Echo^Pad') \
        if not isinstance(kind, tuple) else 'Echo^Pad'
    ds.PatientID = 'ID%d' % seed
    if kind == 'b':
        ds.StudyDescription = 'odd'          # odd length, padded on the wire
        ds.AccessionNumber = 'X'
    if kind == 'big':
        ds.add_new((0x0009, 0x0010), 'LO', 'VERIF')
        ds.add_new((0x0009, 0x1001), 'OB', bytes((i * 11 + seed) & 0xFF for i in range(1200)))
    if kind == 'seq':
        item = pydicom.Dataset()
        item.ReferencedSOPClassUID = sop_class
        item.ReferencedSOPInstanceUID = inst + '.1'
        inner = pydicom.Dataset()
        inner.CodeValue = 'T-%d' % seed
        inner.CodeMeaning = 'odd'
        item.PurposeOfReferenceCodeSequence = pydicom.Sequence([inner])
        ds.ReferencedImageSequence = pydicom.Sequence([item, item])
    if isinstance(kind, tuple):
        n = kind[1]
        if n:
            ds.add_new((0x0009, 0x0010), 'LO', 'VERIF')
            ds.add_new((0x0009, 0x1001), 'OB', bytes((i * 7 + seed + 1) & 0xFF for i in range(n + (n % 2))))
    return ds
