"""Runner: python -m vp.run <ID> [--tier quick|thorough] [--replay file]"""
import importlib
import json
import sys
import traceback

from . import common


def generic_main(mod, tier, seed):
    """Driver for enumeration-style checks: mod.cases(tier, seed) yields JSON-able cases,
    mod.run_case(case) returns {'viol': [(sig, msg), ...], 'key': hashable-or-None}."""
    rep = common.Report(mod.ID, tier, seed, mod.LEVEL)
    rep.assumptions = list(getattr(mod, 'ASSUMPTIONS', []))
    chunk = getattr(mod, 'CHUNK', 200)
    cases = mod.cases(tier, seed)
    n = 0
    for res in common.pmap(mod.__name__, 'run_case', cases, chunk=chunk):
        n += 1
        if res.get('key') is not None:
            rep.nontrivial.add(res['key'])
        for sig, msg in res.get('viol', ()):
            rep.add(common.Viol(sig, msg, res.get('case')))
        if res.get('sample') is not None:
            rep.sample(res['sample'])
        for k, v in res.get('count', {}).items():
            rep.coverage[k] = rep.coverage.get(k, 0) + v
    rep.evaluations = n
    rep.coverage['rule'] = mod.RULE
    rep.coverage['domain'] = getattr(mod, 'domain', lambda t: {})(tier)
    if hasattr(mod, 'finalize'):
        mod.finalize(rep, tier, seed)
    from . import pairs
    if mod.ID in pairs.CATALOGUE:
        pairs.extend(rep, mod.ID, tier, seed)
    return rep


def main(argv):
    try:
        tier, seed, replay, rest = common.tier_seed(argv)
        if not rest:
            print('usage: check <ID> [--tier quick|thorough] [--replay file]')
            return 2
        prop = rest[0].upper()
        common.import_repo()
        mod = importlib.import_module('vp.checks.%s' % prop.lower())
        if replay:
            with open(replay) as fh:
                data = json.load(fh)
            case = data['case']
            obs = []
            for _ in range(2):  # replay twice: the observation must be deterministic
                fn = 'run_case' if hasattr(mod, 'run_case') else 'replay'
                hist = list(case.get('_session') or []) if isinstance(case, dict) else []
                bare = {k: v for k, v in case.items() if k != '_session'} if isinstance(case, dict) else case
                res = common.run_isolated(mod.__name__, fn, hist + [bare])     # a fresh process each time (pair cases: vp.pairs)
                obs.append(sorted((s, m) for s, m in res.get('viol', ())))
            if obs[0] != obs[1]:
                print('HARNESS-ERROR nondeterministic replay of %s' % replay)
                return 2
            hit = [sm for sm in obs[0] if sm[0] == data.get('signature')]
            for s, m in obs[0]:
                print('  %s: %s' % (s, common.short(m, 2000)))
            if hit:
                print('VIOLATION property=%s replay=%s' % (prop, replay))
                return 1
            print('replay of %s: recorded violation does not occur on this tree' % replay)
            return 0
        if hasattr(mod, 'main'):
            rep = mod.main(tier, seed)
        else:
            rep = generic_main(mod, tier, seed)
        return rep.finish()
    except common.HarnessError as exc:
        print('HARNESS-ERROR %s' % exc)
        return 2
    except Exception:
        print('HARNESS-ERROR unexpected exception in the checker:\n%s' % traceback.format_exc())
        return 2


if __name__ == '__main__':
    sys.exit(main(sys.argv[1:]))
