"""Stub upper-layer provider: lets Association / services run without a DUL thread."""
import collections


class StubDUL(object):
    """Stands in for dulprovider.DULServiceProvider: records what the association hands to the
    provider and serves scripted replies from a queue."""
    instances = []

    def __init__(self, store_in_file=None, get_file_cb=None, dul_socket=None, max_pdu_length=65536):
        self.store_in_file, self.get_file_cb = store_in_file, get_file_cb
        self.dul_socket, self.max_pdu_length = dul_socket, max_pdu_length
        self.sent = []          # PDU objects or lists of P-DATA PDUs (generators are drained at once)
        self.inbox = collections.deque()
        self.accepted_contexts = {}
        self.killed = False
        self.stopped = 0
        self.on_send = None
        self.pump = None
        StubDUL.instances.append(self)

    def send(self, primitive):
        if hasattr(primitive, 'pdu_type'):
            self.sent.append(primitive)
        else:
            self.sent.append(list(primitive))
        if self.on_send:
            self.on_send(self, self.sent[-1])

    def receive(self, timeout):
        from pynetdicom2 import exceptions
        if not self.inbox and self.pump:
            self.pump()
        if not self.inbox:
            raise exceptions.DCMTimeoutError()
        item = self.inbox.popleft()
        if callable(item):
            item = item()
        return item

    def stop(self):
        self.stopped += 1
        return True

    def kill(self):
        self.killed = True


class patched_dul(object):
    """Context manager: asceprovider.dulprovider.DULServiceProvider -> StubDUL."""
    def __enter__(self):
        from pynetdicom2 import asceprovider
        if not hasattr(asceprovider.dulprovider, 'DULServiceProvider'):
            from .common import HarnessError
            raise HarnessError('patch target dulprovider.DULServiceProvider missing')
        self.mod = asceprovider.dulprovider
        self.orig = self.mod.DULServiceProvider
        self.mod.DULServiceProvider = StubDUL
        StubDUL.instances = []
        return self

    def __exit__(self, *a):
        self.mod.DULServiceProvider = self.orig


class FakeAE(object):
    """Minimal local AE for Association.send-level checks."""
    def __init__(self, timeout=1):
        self.store_in_file = set()
        self.timeout = timeout
        self.local_ae = {'aet': 'LOCAL', 'address': 'localhost'}

    def get_file(self, ctx, cs):
        raise AssertionError('not expected')
