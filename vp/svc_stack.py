"""Whole-stack service conversations under the E3 schedule explorer: the real service callables of sopclass.py run on real
Association objects whose real DULServiceProvider threads talk over the simulated network, and the scheduler enumerates the
interleavings of the service threads with the provider threads.  Oracles are absolute (what the application handed to the
library is what the peer application receives) - a differential oracle against a solo run would hide a defect that every
schedule shares.  Used as part 2 of C16 (find), C17 (commit, echo-store) and C19 (move, get).

Two families of schedules are enumerated for every scenario:
  * preemption-bounded (CHESS): every schedule with at most `bound` preemptions, free choice whenever the running thread blocks;
  * starvation: for every thread t of the scenario, the schedule in which t runs only when no other thread can, and every
    schedule within `dev` deviations of it.  A provider thread that is slow to pick up what the service thread queued is exactly
    what a loaded interpreter produces, and it takes many consecutive non-default choices - out of reach of a small preemption bound.
"""
import json
import os

from . import common, e3, assoc, dsgen

IMPL = '1.2.840.10008.1.2'
CT = '1.2.840.10008.5.1.4.1.1.2'
MR = '1.2.840.10008.5.1.4.1.1.4'
VERIF = '1.2.840.10008.1.1'
FIND = '1.2.840.10008.5.1.4.1.2.1.1'
MWL = '1.2.840.10008.5.1.4.31'
MOVE = '1.2.840.10008.5.1.4.1.2.1.2'
GET = '1.2.840.10008.5.1.4.1.2.1.3'
COMMIT = '1.2.840.10008.1.20.1'
OUT = {'s': 0x0000, 'w': 0xB000, 'f': 0xA700}
KINDS = ['a', 'b', 'big']
PEND = [0xFF00, 0xFF01]
PARTS = 6


def cases_for(prop, tier):
    thorough = tier == 'thorough'
    if prop == 'C16':
        for k in range(0, 5 if thorough else 4):
            for style in ('fresh', 'reused', 'intstatus'):
                if style != 'fresh' and (k == 0 or (not thorough and k != 2)):
                    continue
                yield {'stack': 'find', 'k': k, 'style': style, 'maxlen': 16384, 'err': False, 'sop': FIND}
        yield {'stack': 'find', 'k': 3, 'style': 'fresh', 'maxlen': 128, 'err': False, 'sop': FIND}
        # every match takes several P-DATA-TF PDUs
        yield {'stack': 'find', 'k': 3, 'style': 'fresh', 'maxlen': 128, 'err': False, 'sop': FIND, 'allbig': True}
        yield {'stack': 'find', 'k': 2, 'style': 'fresh', 'maxlen': 16384, 'err': True, 'sop': FIND}
        yield {'stack': 'find', 'k': 2, 'style': 'fresh', 'maxlen': 16384, 'err': False, 'sop': MWL}
        yield {'stack': 'find', 'k': 2, 'style': 'fresh', 'maxlen': 16384, 'err': False, 'sop': FIND, 'wrapper': True}
        STUDY = '1.2.840.10008.5.1.4.1.2.2.1'
        for roots in ([(FIND, 'SCU'), (STUDY, 'SCU')], [(STUDY, 'SCU'), (None, 'SCU')]) + (([(None, 'SCU'), (STUDY, 'OTHER'), (FIND, 'OTHER')],) if thorough else ()):
            yield {'stack': 'find', 'k': 2, 'style': 'fresh', 'maxlen': 16384, 'err': False, 'sop': FIND, 'wrapper': True, 'roots': roots,
                   'count_all': True}
    elif prop == 'C19':
        vecs = ['', 's', 'fs', 'sws'] + (['f', 'ss', 'sw', 'ssf', 'ssss', 'wfsw'] if thorough else [])
        for v in vecs:
            yield {'stack': 'move', 'vec': v}
        yield {'stack': 'move', 'vec': 'sw', 'as_list': True}
        yield {'stack': 'move', 'vec': 'sss', 'refill': True}
        yield {'stack': 'move', 'vec': 'srs'}       # the destination refuses the class of the second instance
        yield {'stack': 'move', 'vec': 'ss', 'dest_fault': 'hang-after-last'}
        yield {'stack': 'move', 'vec': 'sss', 'mid': 65535}     # the largest message id on the C-MOVE request
        yield {'stack': 'move', 'vec': 's' if not thorough else 'sw', 'clients': 2}
        for v in (['', 's', 'sws'] + (['ss', 'sf', 'ssss'] if thorough else [])):
            yield {'stack': 'get', 'vec': v, 'pending': True}
        yield {'stack': 'get', 'vec': 'ss', 'pending': False}
        yield {'stack': 'get', 'vec': 'sw', 'pending': True, 'twice': True}
        yield {'stack': 'get', 'vec': 'sws', 'pending': False, 'same_ids': True}
        yield {'stack': 'get', 'vec': 'sw', 'pending': True, 'in_file': True}
    elif prop == 'C15':
        yield {'stack': 'same-uid', 'n': 2}
        yield {'stack': 'same-uid', 'n': 2, 'pre': True}
        # C-STORE sub-operations received by the requesting side of an association (C-GET) into files
        yield {'stack': 'get', 'vec': 'sw', 'pending': True, 'in_file': True}
    elif prop == 'C20':
        yield {'stack': 'same-uid', 'n': 2}
        yield {'stack': 'same-uid', 'n': 2, 'pre': True}       # the instance is already in the directory
        if thorough:
            yield {'stack': 'same-uid', 'n': 3}
        yield {'stack': 'msg-ids', 'n': 1000}
        yield {'stack': 'artim-next-to-echo', 'count_all': True}
        yield {'stack': 'request-next-to-mute-peer'}
        yield {'stack': 'rq-repeat', 'times': 3}
        yield {'stack': 'reconfigure'}
    elif prop == 'C17':
        for v in ('ok', 'fail', 'mixed', 'ehe'):
            yield {'stack': 'commit', 'outcome': v}
        yield {'stack': 'echo-store', 'n': 2}
        yield {'stack': 'move', 'vec': 'sf'}
        yield {'stack': 'move', 'vec': 'rs'}
        yield {'stack': 'move', 'vec': 's', 'dest_fault': 'hang-after-last'}      # answered even if the sub-association cannot be released
        yield {'stack': 'find', 'k': 2, 'style': 'fresh', 'maxlen': 16384, 'err': True, 'sop': FIND}


def make(case):
    import pynetdicom2
    from pynetdicom2 import applicationentity, sopclass, exceptions, statuses, dimsemessages
    kind = case['stack']

    def scenario(sched, net, results):
        log = []
        results['log'] = log

        def run_client(body, cae, remote):
            def run():
                try:
                    with cae.request_association(remote) as asce:
                        body(asce)
                    results['client'] = 'ok'
                except exceptions.NetDICOMError as exc:
                    results['client'] = '%s: %s' % (type(exc).__name__, exc)
                results['client_done'] = True
            return run

        if kind == 'find':
            k = case['k']
            matches = [(dsgen.make('big' if case.get('allbig') else KINDS[i % 3], i), PEND[i % 2]) for i in range(k)]
            results['expected'] = [(dsgen.enc(d, IMPL), s) for d, s in matches]

            class FindAE(applicationentity.AE):
                def on_receive_find(self, context, ds):
                    log.append(('query', dsgen.enc(ds, IMPL)))

                    def gen():
                        shared = None
                        for i, (d, s) in enumerate(matches):
                            if case['style'] == 'reused':
                                # an application that keeps one result data set and refills it for every row
                                if shared is None:
                                    shared = dsgen.make('a', 0)
                                shared.clear()
                                shared.update(d)
                                d = shared
                            yield d, (s if case['style'] == 'intstatus' else statuses.Status(s, None))
                        if case['err']:
                            raise exceptions.EventHandlingError('no more')
                    return gen()
            ae = assoc.make_ae('SCP', [IMPL], 16384, [sopclass.qr_find_scp, sopclass.modality_work_list_scp], cls=FindAE)
            net.listen(('srv', 104), e3.serve_ae(ae))
            remote = {'aet': 'SCP', 'address': 'srv', 'port': 104}
            query = dsgen.make('query')
            results['query'] = dsgen.enc(query, IMPL)
            if case.get('wrapper'):
                def run():
                    try:
                        # 'roots': several calls of the convenience wrapper one after the other in one thread
                        for n, (root, aet) in enumerate(case.get('roots') or [(case['sop'], 'SCU')]):
                            results['calls'] = n + 1
                            kw = {} if root is None else {'root': root}
                            got = list(pynetdicom2.c_find(remote, aet, query, **kw))
                            got = [(None if d is None else dsgen.enc(d, IMPL), int(s)) for d, s in got]
                            if n and got != results['find']:
                                results['find_differs'] = (n, _fmt_find(got))
                            if not n:
                                results['find'] = got
                        results['client'] = 'ok'
                    except exceptions.NetDICOMError as exc:
                        results['client'] = '%s: %s' % (type(exc).__name__, exc)
                    results['client_done'] = True
                sched.spawn(run, 'client')
                return
            cae = applicationentity.ClientAE('SCU', [IMPL], case['maxlen']).add_scu(sopclass.qr_find_scu).add_scu(sopclass.modality_work_list_scu)

            def body(asce):
                got = []
                results['find'] = got
                for d, s in asce.get_scu(case['sop'])(query, 21):
                    got.append((None if d is None else dsgen.enc(d, IMPL), int(s)))
            sched.spawn(run_client(body, cae, remote), 'client')

        elif kind == 'move':
            vec = case['vec']
            letters = 'AB'[:case.get('clients', 1)]
            # 'r' in the outcome vector: an instance of a class (MR) whose context the destination refuses
            sets = {L: [dsgen.make(KINDS[i % 3], i, sop_class=MR if vec[i] == 'r' else CT, inst='1.2.9.%d.%d' % (j + 1, i)) for i in range(len(vec))]
                    for j, L in enumerate(letters)}
            outcome = {str(d.SOPInstanceUID): OUT.get(vec[i], 0) for L in letters for i, d in enumerate(sets[L])}
            last = {str(sets[L][-1].SOPInstanceUID) for L in letters if sets[L]}

            def dest_store(asce, ctx, msg):
                u = str(msg.affected_sop_instance_uid)
                log.append(('dest-store', u, msg.data_set))
                rsp = dimsemessages.CStoreRSPMessage()
                rsp.message_id_being_responded_to = msg.message_id
                rsp.affected_sop_instance_uid = msg.affected_sop_instance_uid
                rsp.sop_class_uid = msg.sop_class_uid
                rsp.status = outcome.get(u, 0xC000)
                asce.send(rsp, ctx.id)
                if case.get('dest_fault') == 'hang-after-last' and u in last:
                    # the destination application hangs: the release of the sub-association is never confirmed
                    e3.cur().sleep(40)
            dest_store.sop_classes = [CT]
            dest = assoc.make_ae('DEST', [IMPL], 16384, [dest_store])
            net.listen(('dest', 104), e3.serve_ae(dest))

            class MoveAE(applicationentity.AE):
                def on_receive_move(self, context, ds, destination):
                    L = str(ds.PatientID)
                    log.append(('move-rq', L, str(destination)))
                    # (the application may hand the instances over as a list or as an iterator)
                    if case.get('refill'):
                        # an application that loads one instance at a time into the same Dataset object
                        def gen(items=sets[L]):
                            import pydicom
                            one = pydicom.Dataset()
                            for d in items:
                                one.clear()
                                one.update(d)
                                yield one
                        return {'aet': 'DEST', 'address': 'dest', 'port': 104}, len(sets[L]), gen()
                    return {'aet': 'DEST', 'address': 'dest', 'port': 104}, len(sets[L]), (list(sets[L]) if case.get('as_list') else iter(sets[L]))
            qr = assoc.make_ae('QR', [IMPL], 16384, [sopclass.qr_move_scp], cls=MoveAE)
            qr.add_scu(sopclass.storage_scu, [CT, MR])
            net.listen(('srv', 104), e3.serve_ae(qr))
            results['move'] = {}
            results['insts'] = {L: [(str(d.SOPInstanceUID), dsgen.enc(d, IMPL)) for d in sets[L]] for L in letters}
            results['clients'] = {}
            for j, L in enumerate(letters):
                def client(L=L, j=j):
                    cae = applicationentity.ClientAE('SCU' + L, [IMPL], 16384).add_scu(sopclass.qr_move_scu)
                    if case.get('dest_fault'):
                        cae.timeout = 25        # longer than the provider waits for its sub-association
                    got = []
                    results['move'][L] = got
                    q = dsgen.make('query')
                    q.PatientID = L
                    try:
                        with cae.request_association({'aet': 'QR', 'address': 'srv', 'port': 104}) as asce:
                            for status, rsp in asce.get_scu(MOVE)(q, 'DEST', case.get('mid', 31) + j):
                                got.append((int(status), rsp.num_of_remaining_sub_ops, rsp.num_of_completed_sub_ops, rsp.num_of_failed_sub_ops,
                                            rsp.num_of_warning_sub_ops, rsp.message_id_being_responded_to))
                            if case.get('dest_fault'):
                                # the request has been answered; the application keeps listening while the provider finds out
                                # that its sub-association cannot be released: whatever else happens, no further response
                                try:
                                    m, pcid = asce.receive()
                                    results.setdefault('after_final', []).append((type(m).__name__, pcid, getattr(m, 'message_id_being_responded_to', None),
                                                                                  int(getattr(m, 'status', -1) or 0)))
                                except exceptions.NetDICOMError:
                                    pass
                        results['clients'][L] = 'ok'
                    except exceptions.NetDICOMError as exc:
                        results['clients'][L] = '%s: %s' % (type(exc).__name__, exc)
                sched.spawn(client, 'client' + ('' if len(letters) == 1 else '-' + L))
            results['client'] = 'ok'   # judged per client below

        elif kind == 'get':
            vec = case['vec']
            insts = [dsgen.make(KINDS[i % 3], i, sop_class=(CT, MR)[i % 2], inst='1.2.8.%d' % i) for i in range(len(vec))]
            results['insts'] = [(str(d.SOPInstanceUID), dsgen.enc(d, IMPL)) for d in insts]

            def get_scp(asce, ctx, msg):
                """A C-GET provider written against the public Association API (the library ships only the user side)."""
                log.append(('get-rq', msg.message_id))
                done = 0
                for i, d in enumerate(insts):
                    rq = dimsemessages.CStoreRQMessage()
                    # (0 is a legitimate message id; 'same_ids': the provider numbers every sub-operation alike - only outstanding
                    # ids have to differ)
                    rq.message_id = 5 if case.get('same_ids') else (0 if i == 0 else 700 + i)
                    rq.sop_class_uid = d.SOPClassUID
                    rq.affected_sop_instance_uid = d.SOPInstanceUID
                    rq.priority = 0
                    rq.data_set = dsgen.enc(d, IMPL)
                    store_ctx = [c for c in asce.accepted_contexts.values() if str(c.sop_class) == str(d.SOPClassUID)][0]
                    asce.send(rq, store_ctx.id)
                    rsp, pc = asce.receive()
                    log.append(('store-rsp', i, type(rsp).__name__, pc == store_ctx.id, rsp.message_id_being_responded_to,
                                str(getattr(rsp, 'affected_sop_instance_uid', '')), int(rsp.status)))
                    done += 1
                    if case['pending']:
                        p = dimsemessages.CGetRSPMessage()
                        p.message_id_being_responded_to = msg.message_id
                        p.sop_class_uid = msg.sop_class_uid
                        p.status = 0xFF00
                        p.num_of_remaining_sub_ops = len(insts) - done
                        p.num_of_completed_sub_ops = done
                        p.num_of_failed_sub_ops = 0
                        p.num_of_warning_sub_ops = 0
                        asce.send(p, ctx.id)
                f = dimsemessages.CGetRSPMessage()
                f.message_id_being_responded_to = msg.message_id
                f.sop_class_uid = msg.sop_class_uid
                f.status = 0
                f.num_of_remaining_sub_ops = 0
                f.num_of_completed_sub_ops = done
                f.num_of_failed_sub_ops = 0
                f.num_of_warning_sub_ops = 0
                asce.send(f, ctx.id)
            get_scp.sop_classes = [GET]

            def accept_store(asce, ctx, msg):     # never used: makes the storage contexts acceptable
                raise AssertionError('store request sent to the C-GET provider')
            accept_store.sop_classes = [CT, MR]
            srv = assoc.make_ae('QR', [IMPL], 16384, [get_scp, accept_store])
            net.listen(('srv', 104), e3.serve_ae(srv))

            class GetClient(applicationentity.ClientAE):
                def on_receive_store(self, context, ds):
                    i = len([x for x in log if x[0] == 'client-store'])
                    log.append(('client-store', i))
                    i %= len(vec)
                    if vec[i] == 'f':
                        raise exceptions.EventHandlingError('cannot keep it')
                    return statuses.Status(OUT[vec[i]], None)
            if case.get('in_file'):
                # retrieved instances are received into files (the way the library's documentation recommends for C-GET)
                def keep(asce, ctx, ds, msg_id):
                    raise AssertionError('not used')
                keep.sop_classes = [CT, MR]
                keep.store_in_file = True
                cae = GetClient('SCU', [IMPL], 16384).add_scu(sopclass.qr_get_scu).add_scu(keep)
            else:
                cae = GetClient('SCU', [IMPL], 16384).add_scu(sopclass.qr_get_scu).add_scu(sopclass.storage_scu, [CT, MR])

            def body(asce):
                got = []
                results['get'] = got
                for rep in range(2 if case.get('twice') else 1):     # a second retrieve on the same association
                    for c, d in asce.get_scu(GET)(dsgen.make('query'), 41 + rep):
                        if hasattr(d, 'read'):
                            d.seek(0)
                            got.append((str(c.sop_class), 'file', d.read()))
                        else:
                            got.append((str(c.sop_class), dsgen.enc(d, IMPL)))
            sched.spawn(run_client(body, cae, {'aet': 'QR', 'address': 'srv', 'port': 104}), 'client')

        elif kind == 'commit':
            outcome = case['outcome']
            uids = [(CT, '1.2.7.1'), (MR, '1.2.7.2')]
            results['uids'] = uids

            class Archive(applicationentity.AE):
                def on_commitment_request(self, remote_ae, uid_iter):
                    asked = [(str(a), str(b)) for a, b in uid_iter]
                    log.append(('commit-rq', asked))
                    if outcome == 'ehe':
                        raise exceptions.EventHandlingError('busy')
                    ok = asked if outcome == 'ok' else [] if outcome == 'fail' else asked[:1]
                    bad = [] if outcome == 'ok' else [(a, b, 0x0112) for a, b in (asked if outcome == 'fail' else asked[1:])]
                    return {'aet': 'SCU', 'address': 'modality', 'port': 104}, ok, bad
            arch = assoc.make_ae('ARCH', [IMPL], 16384, [sopclass.StorageCommitment()], cls=Archive)
            arch.add_scu(sopclass.storage_commitment_scu)
            net.listen(('srv', 104), e3.serve_ae(arch))

            class Modality(applicationentity.AE):
                def on_commitment_response(self, transaction_uid, success, failure):
                    log.append(('commit-rsp', str(transaction_uid), [(str(a), str(b)) for a, b in success],
                                [(str(a), str(b), int(c)) for a, b, c in failure]))
            mod = assoc.make_ae('SCU', [IMPL], 16384, [sopclass.StorageCommitment()], cls=Modality)
            mod.add_scu(sopclass.storage_commitment_scu)
            net.listen(('modality', 104), e3.serve_ae(mod))

            def body(asce):
                st = asce.get_scu(COMMIT)('1.2.7.99', uids, 51)
                results['n_action_status'] = int(st)
            sched.spawn(run_client(body, mod, {'aet': 'ARCH', 'address': 'srv', 'port': 104}), 'client')

        elif kind == 'echo-store':
            class Srv(applicationentity.AE):
                def on_receive_store(self, context, ds):
                    log.append(('store', dsgen.enc(ds, IMPL) if not hasattr(ds, 'read') else ds.read()))
                    return statuses.SUCCESS

                def on_receive_echo(self, context):
                    log.append(('echo',))
                    return statuses.SUCCESS
            srv = assoc.make_ae('SCP', [IMPL], 16384, [sopclass.verification_scp], cls=Srv)
            srv.add_scp(sopclass.storage_scp)
            net.listen(('srv', 104), e3.serve_ae(srv))
            cae = applicationentity.ClientAE('SCU', [IMPL], 256).add_scu(sopclass.verification_scu).add_scu(sopclass.storage_scu, [CT])
            dss = [dsgen.make(KINDS[(i + 2) % 3], i, sop_class=CT, inst='1.2.6.%d' % i) for i in range(case['n'])]
            results['insts'] = [dsgen.enc(d, IMPL) for d in dss]

            def body(asce):
                got = []
                results['status'] = got
                got.append(int(asce.get_scu(VERIF)(61)))
                for i, d in enumerate(dss):
                    got.append(int(asce.get_scu(CT)(d, 62 + i)))
                got.append(int(asce.get_scu(VERIF)(69)))
            sched.spawn(run_client(body, cae, {'aet': 'SCP', 'address': 'srv', 'port': 104}), 'client')
        elif kind == 'same-uid':
            # n clients store the SAME SOP instance (own content each) into one directory-backed StorageAE at the same time
            import tempfile, os
            tmp = tempfile.mkdtemp(prefix='vp_stack_', dir=os.environ.get('VP_TMP') or None)
            results['tmpdir'] = tmp
            fs_points(pynetdicom2)

            class Archive(pynetdicom2.StorageAE):
                def on_receive_store(self, context, ds):
                    pos = ds.tell()
                    e3.cur().point('handler.store')        # the application takes its time before it reads the file
                    raw = ds.read()
                    ds.seek(pos)
                    log.append(('stored', getattr(ds, 'name', None), raw))
                    return statuses.SUCCESS
            if case.get('pre'):
                with open(os.path.join(tmp, '1.2.5.1.dcm'), 'wb') as fh:
                    fh.write(b'EARLIER-COPY')
            arch = Archive(tmp, 'SCP', 0, [IMPL], 16384)
            arch.server_close()
            arch.add_scp(sopclass.storage_scp)
            net.listen(('srv', 104), e3.serve_ae(arch))
            results['sent'] = {}
            results['clients'] = {}
            for j in range(case['n']):
                def client(j=j):
                    L = 'ABC'[j]
                    cae = applicationentity.ClientAE('SCU' + L, [IMPL], 16384).add_scu(sopclass.storage_scu, [CT])
                    d = dsgen.make(('pad', 40 + 20 * j), j, sop_class=CT, inst='1.2.5.1')
                    d.PatientName = 'Client^' + L
                    results['sent'][L] = dsgen.enc(d, IMPL)
                    try:
                        with cae.request_association({'aet': 'SCP', 'address': 'srv', 'port': 104}) as asce:
                            st = asce.get_scu(CT)(d, 80 + j)
                        results['clients'][L] = int(st)
                    except exceptions.NetDICOMError as exc:
                        results['clients'][L] = '%s: %s' % (type(exc).__name__, exc)
                sched.spawn(client, 'client-' + 'ABC'[j])
            results['client'] = 'ok'

        elif kind == 'msg-ids':
            # message ids handed out by the convenience API: two application threads drawing many ids each
            def draw(tag):
                def run():
                    results[tag] = [pynetdicom2._new_msg_id() for _ in range(case['n'])]
                    e3.cur().point('drawn')
                    results[tag] += [pynetdicom2._new_msg_id() for _ in range(5)]
                return run
            sched.spawn(draw('ids-a'), 'client-a')
            sched.spawn(draw('ids-b'), 'client-b')
            results['client'] = 'ok'

        elif kind == 'artim-next-to-echo':
            # a peer connects and never sends anything (ARTIM runs on that connection); meanwhile another association of the
            # same entity is set up, used and released: the silent connection is still closed when its own ARTIM expires
            srv = assoc.make_ae('SCP', [IMPL], 16384, [sopclass.verification_scp])
            net.listen(('srv', 104), e3.serve_ae(srv))

            def silent():
                end = net.socket()
                end.name = 'peer'
                end.connect(('srv', 104))
                t0 = e3.cur().now
                got = end.recv(16)
                results['silent'] = (len(got), round(e3.cur().now - t0, 2))
                end.close()
            sched.spawn(silent, 'peer')
            cae = applicationentity.ClientAE('SCU', [IMPL], 16384).add_scu(sopclass.verification_scu)

            def body(asce):
                results['echo'] = int(asce.get_scu(VERIF)(97))
                results['echo_after'] = round(e3.cur().now - results['t_start'], 2)

            def later():
                e3.cur().sleep(3.0)
                results['t_start'] = e3.cur().now
                run_client(body, cae, {'aet': 'SCP', 'address': 'srv', 'port': 104})()
            sched.spawn(later, 'client')

        elif kind == 'request-next-to-mute-peer':
            # one entity, two of its threads request associations: the first from a peer that takes the connection, reads the
            # request and never answers, the second (a second later) from a peer that works - the second is not held up by the first
            srv = assoc.make_ae('SCP', [IMPL], 16384, [sopclass.verification_scp])
            net.listen(('srv', 104), e3.serve_ae(srv))

            def mute(end, addr):
                end.recv(4096)
                e3.cur().sleep(40)
                end.close()
            mute.vp_name = 'mute'
            net.listen(('mute', 104), mute)
            cae = applicationentity.ClientAE('SCU', [IMPL], 16384).add_scu(sopclass.verification_scu)

            def first():
                try:
                    with cae.request_association({'aet': 'MUTE', 'address': 'mute', 'port': 104}) as asce:
                        results['first'] = 'established'
                except exceptions.NetDICOMError as exc:
                    results['first'] = type(exc).__name__
                results['first_after'] = round(e3.cur().now, 2)
            sched.spawn(first, 'client-a')

            def body(asce):
                results['echo'] = int(asce.get_scu(VERIF)(98))
                results['echo_after'] = round(e3.cur().now - results['t_start'], 2)

            def second():
                e3.cur().sleep(1.0)
                results['t_start'] = e3.cur().now
                run_client(body, cae, {'aet': 'SCP', 'address': 'srv', 'port': 104})()
            sched.spawn(second, 'client')

        elif kind == 'rq-repeat':
            # one entity (with provider services, so that role selection is proposed) requests several associations one after
            # the other from ONE remote-AE configuration dictionary that carries extra user information
            from pynetdicom2 import userdataitems
            import copy

            def never(asce, ctx, msg):
                raise AssertionError('not used')
            never.sop_classes = [CT]
            srv = assoc.make_ae('SCP', [IMPL], 16384, [sopclass.verification_scp, never])
            net.listen(('srv', 104), e3.serve_ae(srv))
            def ct_scp(asce, ctx, msg):
                return sopclass.storage_scp(asce, ctx, msg)
            ct_scp.sop_classes = [CT, MR]
            ent = assoc.make_ae('ENT', [IMPL], 16384, [ct_scp])
            ent.add_scu(sopclass.verification_scu).add_scu(sopclass.storage_scu, [CT])
            remote = {'aet': 'SCP', 'address': 'srv', 'port': 104,
                      'user_data': [userdataitems.ImplementationVersionNameSubItem('VP-TEST')]}
            results['config_before'] = repr(sorted((k, repr(v)) for k, v in remote.items()))

            def run():
                sts = []
                results['echo'] = sts
                try:
                    for i in range(case['times']):
                        with ent.request_association(remote) as asce:
                            sts.append(int(asce.get_scu(VERIF)(90 + i)))
                    results['client'] = 'ok'
                except exceptions.NetDICOMError as exc:
                    results['client'] = '%s: %s' % (type(exc).__name__, exc)
                results['config_after'] = repr(sorted((k, repr(v)) for k, v in remote.items()))
            sched.spawn(run, 'client')

        elif kind == 'reconfigure':
            # while an association request of an entity is in flight, another thread re-purposes the entity for its next job
            # (new context table); the association in flight must stay what it negotiated
            srv = assoc.make_ae('SCP', [IMPL], 16384, [sopclass.verification_scp, sopclass.qr_find_scp])
            net.listen(('srv', 104), e3.serve_ae(srv))
            cae = applicationentity.ClientAE('SCU', [IMPL], 16384).add_scu(sopclass.verification_scu)
            def run():
                try:
                    with cae.request_association({'aet': 'SCP', 'address': 'srv', 'port': 104}) as asce:
                        results['accepted'] = sorted((k, str(v.sop_class)) for k, v in asce.accepted_contexts.items())
                        results['echo'] = int(asce.get_scu(VERIF)(95))
                    results['client'] = 'ok'
                except exceptions.NetDICOMError as exc:
                    results['client'] = '%s: %s' % (type(exc).__name__, exc)

            def reconfigure():
                # ... once the association request is on the wire
                sc = e3.cur()
                sc.point('admin.wait', cond=lambda: any(bytes(d[:1]) == b'\x01' for _, d in net.wire), deadline=sc.now + 5)
                with cae.lock:
                    cae.context_def_list = {}       # the proposals of the next job start from context id 1 again
                cae.add_scu(sopclass.qr_find_scu)
                results['reconfigured'] = True
            sched.spawn(run, 'client')
            sched.spawn(reconfigure, 'admin')
        else:
            raise common.HarnessError('unknown stack scenario %r' % kind)
    return scenario


def fs_points(pkg):
    """Check-then-act on the file system is a scheduling decision too: pynetdicom2/__init__.py looks a name up and then creates
    it.  Give the explorer a point before each of the two steps (only inside an execution, only in fine mode)."""
    import os as _os
    import types
    if getattr(pkg, '_vp_fs_points', False):
        return
    if not hasattr(pkg, 'os'):
        raise common.HarnessError('pynetdicom2/__init__.py no longer uses os.path: file-system points need re-anchoring')

    def pt(label):
        sc = e3.Sched.current
        if sc is not None and sc.fine and sc.owns_current_thread():
            sc.point(label)

    def exists(path):
        pt('fs.exists')
        return _os.path.exists(path)

    def open_(*a, **k):
        pt('fs.open')
        return open(*a, **k)
    path = types.SimpleNamespace(**{k: getattr(_os.path, k) for k in dir(_os.path) if not k.startswith('__')})
    path.exists = exists
    shim = types.SimpleNamespace(**{k: getattr(_os, k) for k in dir(_os) if not k.startswith('__')})
    shim.path = path

    def os_open(*a, **k):
        pt('fs.create')
        return _os.open(*a, **k)
    shim.open = os_open
    pkg.os = shim
    pkg.open = open_
    pkg._vp_fs_points = True


def _cleanup(out):
    d = out.results.get('tmpdir')
    if d:
        import shutil
        shutil.rmtree(d, ignore_errors=True)


def _fmt_find(items):
    return [('%dB' % len(d) if d else None, '%04X' % s) for d, s in items]


def judge(case, out):
    viol = []
    kind = case['stack']
    r = out.results
    sig = 'stack:%s' % kind
    sched = ''.join(map(str, [c for c in out.choices if c])) or 'default'
    where = 'case=%s low=%s schedule-deviations=%s' % (common.short({k: v for k, v in case.items() if k not in ('schedule', 'low')}, 160),
                                                       case.get('low'), sched[:60])
    if out.deadlock:
        viol.append((sig + ':deadlock', 'threads blocked forever: %r (%s)' % (out.deadlock, where)))
        return viol
    if out.overrun:
        viol.append((sig + ':unbounded', 'not finished after %.0f virtual seconds: %r (%s)' % (out.elapsed, out.overrun, where)))
        return viol
    if out.crashed:
        viol.append((sig + ':thread-crash:%s' % out.crashed[0][1].split('(')[0], 'thread %s died: %s %s (%s)' % (
            out.crashed[0][0], out.crashed[0][1], out.crashed[0][2][-300:], where)))
        return viol
    if r.get('client') != 'ok':
        viol.append((sig + ':client-error', 'the requesting application got %r%s (%s)' % (
            r.get('client'), ' in call %d of a sequence' % r['calls'] if r.get('calls', 1) > 1 else '', where)))
        return viol
    log = r['log']
    if kind == 'find':
        got = r.get('find', [])
        exp = r['expected']
        body, tail = got[:len(exp)], got[len(exp):]
        if body != exp:
            what = 'order-or-content' if len(body) == len(exp) else 'count'
            viol.append((sig + ':matches:' + what, 'the query user received %r, the provider application yielded %r (%s)' % (
                _fmt_find(body), _fmt_find(exp), where)))
            if len(body) == len(exp):
                wrong = [i for i in range(len(exp)) if body[i] != exp[i]]
                same_as = [[j for j in range(len(exp)) if exp[j] == body[i]] for i in wrong]
                viol[-1] = (viol[-1][0], viol[-1][1] + ' positions %r carry the content of matches %r' % (wrong, same_as))
        if len(tail) != 1 or tail[0][0] is not None or tail[0][1] in PEND:
            viol.append((sig + ':final', 'after the matches the user got %r, expected exactly one final response (%s)' % (_fmt_find(tail), where)))
        elif case['err'] and tail[0][1] == 0:
            viol.append((sig + ':final-after-error', 'handler signalled an error, final status is success (%s)' % where))
        elif not case['err'] and tail[0][1] != 0:
            viol.append((sig + ':final-status', 'final status %04X (%s)' % (tail[0][1], where)))
        if r.get('find_differs'):
            viol.append((sig + ':later-call-differs', 'call %d of the wrapper returned %r, the first call %r (%s)' % (
                r['find_differs'][0] + 1, r['find_differs'][1], _fmt_find(got), where)))
        q = [x for x in log if x[0] == 'query']
        ncalls = len(case.get('roots') or [1])
        if len(q) != ncalls or any(x[1] != r['query'] for x in q):
            viol.append((sig + ':query', 'handler saw %d queries / a different query (%s)' % (len(q), where)))
    elif kind == 'move':
        vec = case['vec']
        n = len(vec)
        for j, L in enumerate('AB'[:case.get('clients', 1)]):
            tag = '' if case.get('clients', 1) == 1 else ' [client %s]' % L
            mid = case.get('mid', 31) + j
            if r['clients'].get(L) != 'ok' and not case.get('dest_fault'):
                viol.append((sig + ':client-error', 'the requesting application got %r%s (%s)' % (r['clients'].get(L), tag, where)))
                continue
            got = r['move'].get(L, [])
            exp = []
            for k in range(1, n + 1):
                exp.append((0xFF00, n - k, k, vec[:k].count('f') + vec[:k].count('r'), vec[:k].count('w'), mid))
            mine = {u for u, _ in r['insts'][L]}
            stores = [x for x in log if x[0] == 'dest-store' and x[1] in mine]
            if [(u, d) for _, u, d in stores] != [x for i, x in enumerate(r['insts'][L]) if vec[i] != 'r']:
                viol.append((sig + ':sub-operations', 'destination received %r, application supplied %r%s (%s)' % (
                    [u for _, u, _ in stores], [u for u, _ in r['insts'][L]], tag, where)))
            pend, tail = got[:-1], got[-1:]
            # "k counted as performed": completed == k, or completed + failed + warning == k (both conventions exist)
            okp = len(pend) == n and all(p[0] == 0xFF00 and p[1] == e[1] and p[5] == mid and p[3] == e[3] and p[4] == e[4] and
                                         (p[2] == e[2] or p[2] + p[3] + p[4] == e[2]) for p, e in zip(pend, exp))
            if r.get('after_final'):
                viol.append((sig + ':answered-again', 'after the final response %r the requesting application received %r on the same association%s (%s)' % (
                    tail, r['after_final'], tag, where)))
            if len(tail) != 1 or tail[0][0] in PEND or tail[0][1] not in (0, None) or tail[0][5] != mid:
                viol.append((sig + ':final', 'responses %r: no single final response%s (%s)' % (got, tag, where)))
            elif not okp:
                viol.append((sig + ':progress', 'pending responses (status, remaining, completed, failed, warning, msg id) %r, expected %r%s (%s)' % (
                    pend, exp, tag, where)))
            elif n and not (tail[0][2] == n or tail[0][2] + tail[0][3] + tail[0][4] == n):
                viol.append((sig + ':final-counters', 'final response %r after %d sub-operations%s (%s)' % (tail, n, tag, where)))
    elif kind == 'get':
        vec = case['vec']
        n = len(vec)
        got = r.get('get', [])
        reps = 2 if case.get('twice') else 1
        kept = [i for i in range(n) if vec[i] != 'f']
        exp_all = [r['insts'][i][1] for i in range(n)] * reps
        exp_kept = [r['insts'][i][1] for i in kept] * reps
        gd = [g[-1] for g in got]
        if case.get('in_file'):
            if len(gd) not in (len(exp_all), len(exp_kept)) or [g[1] for g in got] != ['file'] * len(got) or \
                    not all(a.endswith(b) for a, b in zip(gd, exp_all if len(gd) == len(exp_all) else exp_kept)):
                viol.append((sig + ':instances', 'file-backed retrieve: the caller was handed %r, provider sent %d instances (%s)' % (
                    [(g[1], len(g[-1])) for g in got], n, where)))
        elif gd != exp_all and gd != exp_kept:
            viol.append((sig + ':instances', 'caller was handed %d instances %r, provider sent %d (%s)' % (
                len(gd), [exp_all.index(d) if d in exp_all else '?' for d in gd], n, where)))
        rsps = [x for x in log if x[0] == 'store-rsp']
        exp_r = [('store-rsp', i, 'CStoreRSPMessage', True, 5 if case.get('same_ids') else (0 if i == 0 else 700 + i), r['insts'][i][0],
                  OUT[vec[i]] if vec[i] != 'f' else None) for i in range(n)] * reps
        bad = [(g, e) for g, e in zip(rsps, exp_r) if g[:6] != e[:6] or (e[6] is not None and g[6] != e[6]) or
               (e[6] is None and g[6] in (0, 0xB000, 0xFF00, 0xFF01))]
        n *= reps
        if len([x for x in log if x[0] == 'get-rq']) != reps:
            viol.append((sig + ':requests', 'provider saw %d C-GET requests, %d were issued (%s)' % (len([x for x in log if x[0] == 'get-rq']), reps, where)))
        if len(rsps) != n or bad:
            viol.append((sig + ':store-responses', 'sub-operation responses %r, expected %r (%s)' % (rsps, exp_r, where)))
        if len([x for x in log if x[0] == 'client-store']) != n:
            viol.append((sig + ':handler-calls', 'on_receive_store called %d times for %d sub-operations (%s)' % (
                len([x for x in log if x[0] == 'client-store']), n, where)))
    elif kind == 'commit':
        outcome = case['outcome']
        uids = [(a, b) for a, b in r['uids']]
        rq = [x for x in log if x[0] == 'commit-rq']
        if len(rq) != 1 or rq[0][1] != uids:
            viol.append((sig + ':request', 'archive application saw %r (%s)' % (rq, where)))
        st = r.get('n_action_status')
        if outcome == 'ehe':
            if st in (0, None):
                viol.append((sig + ':status', 'handler failed, N-ACTION status %r (%s)' % (st, where)))
            if [x for x in log if x[0] == 'commit-rsp']:
                viol.append((sig + ':report-after-failure', 'event report sent after a failed request (%s)' % where))
        else:
            if st != 0:
                viol.append((sig + ':status', 'N-ACTION status %r (%s)' % (st, where)))
            rsp = [x for x in log if x[0] == 'commit-rsp']
            ok = uids if outcome == 'ok' else [] if outcome == 'fail' else uids[:1]
            bad = [] if outcome == 'ok' else [(a, b, 0x0112) for a, b in (uids if outcome == 'fail' else uids[1:])]
            if len(rsp) != 1 or rsp[0][1:] != ('1.2.7.99', ok, bad):
                viol.append((sig + ':report', 'modality application got reports %r, expected one (%r, %r, %r) (%s)' % (rsp, '1.2.7.99', ok, bad, where)))
    elif kind == 'same-uid':
        sent = r['sent']
        stored = [x for x in log if x[0] == 'stored']
        for L, st in sorted(r['clients'].items()):
            if st != 0:
                viol.append((sig + ':status', 'client %s got %r (%s)' % (L, st, where)))
        seen = [x[2] for x in stored]
        for L, raw in sorted(sent.items()):
            hits = [x for x in seen if x.endswith(raw)]
            if len(hits) != 1:
                others = [M for M in sent if M != L and any(x.endswith(sent[M]) for x in seen)]
                viol.append((sig + ':handler-content', "the data set of client %s reached the application %d times (files read by the handler: %r bytes; "
                             "other clients' content seen: %r) (%s)" % (L, len(hits), [len(x) for x in seen], others, where)))
        import os
        names = sorted(os.listdir(r['tmpdir'])) if os.path.isdir(r['tmpdir']) else []
        contents = [open(os.path.join(r['tmpdir'], nm), 'rb').read() for nm in names]
        if case.get('pre') and b'EARLIER-COPY' not in contents:
            viol.append((sig + ':earlier-file', 'the copy that was in the directory before is gone or changed; files now %r (%s)' % (
                [(nm, len(c)) for nm, c in zip(names, contents)], where)))
        for L, raw in sorted(sent.items()):
            if sum(1 for c in contents if c.endswith(raw)) != 1:
                viol.append((sig + ':files', 'after %d stores of one instance UID the directory holds %r; the content of client %s is in %d of them (%s)' % (
                    len(sent), [(nm, len(c)) for nm, c in zip(names, contents)], L, sum(1 for c in contents if c.endswith(raw)), where)))
    elif kind == 'msg-ids':
        for tag in ('ids-a', 'ids-b'):
            ids = r.get(tag, [])
            if len(ids) != case['n'] + 5 or len(set(ids)) != len(ids) or not all(isinstance(x, int) and 0 <= x <= 0xFFFF for x in ids):
                dup = sorted(set(x for x in ids if ids.count(x) > 1))[:5]
                viol.append((sig + ':not-unique', '%d message ids drawn in one thread: %d distinct, repeated %r, range %r..%r (%s)' % (
                    len(ids), len(set(ids)), dup, min(ids) if ids else None, max(ids) if ids else None, where)))
    elif kind == 'artim-next-to-echo':
        if r.get('echo') != 0:
            viol.append((sig + ':echo', 'echo status %r (%s)' % (r.get('echo'), where)))
        if r.get('echo_after') is None or r['echo_after'] > 2.0:
            viol.append((sig + ':held-up', 'next to a connection on which the peer sends nothing, setting up another association and one echo took %r virtual '
                         'seconds (%s)' % (r.get('echo_after'), where)))
        sl = r.get('silent')
        if sl is None or sl[0] != 0 or not (9.9 <= sl[1] <= 10.3):
            viol.append((sig + ':artim', 'a connection on which the peer never sent anything was closed after %r (bytes received by the peer, virtual seconds); '
                         'ARTIM is 10 s, another association was served in between (%s)' % (sl, where)))
    elif kind == 'request-next-to-mute-peer':
        if r.get('echo') != 0:
            viol.append((sig + ':echo', 'echo status %r (%s)' % (r.get('echo'), where)))
        if r.get('echo_after') is None or r['echo_after'] > 2.0:
            viol.append((sig + ':held-up', 'while another thread of the entity waited for a peer that never answers its association request, requesting an '
                         'association from a working peer and one echo took %r virtual seconds (%s)' % (r.get('echo_after'), where)))
        if r.get('first') not in ('DCMTimeoutError', 'AssociationAbortedError', 'AssociationError', 'NetDICOMError'):
            viol.append((sig + ':first', 'the request to the peer that never answers ended as %r after %r s (%s)' % (r.get('first'), r.get('first_after'), where)))
    elif kind == 'rq-repeat':
        from . import ref_pdu
        if r.get('echo') != [0] * case['times']:
            viol.append((sig + ':status', 'echo statuses %r (%s)' % (r.get('echo'), where)))
        if r.get('config_after') != r['config_before']:
            viol.append((sig + ':config-mutated', "the caller's remote-AE configuration was changed by the library: %s -> %s (%s)" % (
                r['config_before'][:300], r.get('config_after', '')[:300], where)))
        rqs = []
        per = {}
        for name, data in out.wire:
            per.setdefault(name, bytearray()).extend(data)
        for name in sorted(per):
            pdus, _ = ref_pdu.split_stream(bytes(per[name]))
            rqs += [p for p in pdus if p[:1] == b'\x01']
        if len(rqs) != case['times'] or any(x != rqs[0] for x in rqs):
            viol.append((sig + ':request-differs', 'the %d association requests built from one configuration have lengths %r (all must be identical) (%s)' % (
                len(rqs), [len(x) for x in rqs], where)))
    elif kind == 'reconfigure':
        if r.get('accepted') != [(1, VERIF)] or r.get('echo') != 0:
            viol.append((sig + ':in-flight-association', 'the association requested before the entity was reconfigured has contexts %r, echo status %r '
                         '(proposed: verification on context 1) (%s)' % (r.get('accepted'), r.get('echo'), where)))
    elif kind == 'echo-store':
        n = case['n']
        if r.get('status') != [0] * (n + 2):
            viol.append((sig + ':status', 'statuses %r (%s)' % (r.get('status'), where)))
        seen = [x[1] for x in log if x[0] == 'store']
        if len(seen) != len(r['insts']) or not all(a.endswith(b) for a, b in zip(seen, r['insts'])):
            viol.append((sig + ':content', 'provider application saw %d data sets, differing from the %d sent (%s)' % (len(seen), n, where)))
        if len([x for x in log if x[0] == 'echo']) != 2:
            viol.append((sig + ':echo', 'echo handler calls: %d (%s)' % (len([x for x in log if x[0] == 'echo']), where)))
    return viol


def run_case(case, prefix_sig=''):
    common.import_repo()
    sc = make(case)
    if 'schedule' in case:
        out = e3.execute(sc, case['schedule'] or [], low=case.get('low') or (), fine=True)
        v = judge(case, out)
        _cleanup(out)
        return {'viol': [(prefix_sig + s, m) for s, m in v], 'case': case}
    viol = []
    first = [None]
    stats_tot = {'schedules': 0, 'decisions': 0, 'capped': False, 'families': 0, 'outcomes': set()}

    def runfam(low, bound, count_all, max_exec):
        def on(out):
            v = judge(dict(case, low=list(low)), out)
            _cleanup(out)
            stats_tot['outcomes'].add(repr(sorted((k, repr(x)) for k, x in out.results.items() if k not in ('log', 'tmpdir'))))
            if v and first[0] is None:
                first[0] = (list(out.choices), list(low))
            viol.extend(v)
            return bool(v)          # one counterexample per exploration is enough
        part = case.get('part')     # (p, P): this call explores the sub-trees p, p+P, ... hanging off the default execution
        if part is None:
            sts = [e3.explore(sc, bound, on, max_exec=max_exec, count_all=count_all, low=low, fine=True)]
        else:
            out0, roots = e3.first_level(sc, bound, count_all=count_all, low=low, fine=True)
            sts = []
            if part[0] != 0:
                _cleanup(out0)
            if part[0] == 0:
                on(out0)
                sts.append({'executions': 1, 'decisions': len(out0.points), 'capped': False})
            for root in (roots[part[0]::part[1]] if not viol else []):
                if viol:
                    break
                sts.append(e3.explore(sc, bound, on, max_exec=max_exec, count_all=count_all, low=low, fine=True, root=root))
        for st in sts:
            stats_tot['schedules'] += st['executions']
            stats_tot['decisions'] += st['decisions']
            stats_tot['capped'] = stats_tot['capped'] or st['capped']
        stats_tot['families'] += 1
    base = e3.execute(sc, [], fine=True)
    _cleanup(base)
    names = [t[0] for t in base.threads]
    fam = case.get('family')        # None: all families in this call; 0: the preemption-bounded one; i>0: starve thread i-1
    if fam in (None, 0):
        runfam((), case.get('bound', 1), case.get('count_all', False), case.get('max_exec', 4000))
    for i, nm in enumerate(names):
        if fam is None or fam == i + 1:
            runfam((nm,), case.get('dev', 0), True, 2000)
    dedup = {}
    for s, m in viol:
        dedup.setdefault(prefix_sig + s, m)
    rc = None
    if viol:
        rc = dict(case, schedule=first[0][0], low=first[0][1])
    return {'viol': list(dedup.items()), 'case': rc,
            'stats': {'schedules': stats_tot['schedules'], 'decisions': stats_tot['decisions'], 'capped': stats_tot['capped'],
                      'families': stats_tot['families'], 'threads': names, 'distinct_outcomes': len(stats_tot['outcomes'])}}


def extend(rep, prop, tier, seed, module):
    """Run the whole-stack cases of `prop` (through module.run_case so that replays go through the check's own entry point)."""
    tot = {'schedules': 0, 'decisions': 0, 'cases': 0, 'capped': 0, 'outcomes': 0}
    cs = []
    only = os.environ.get('VP_STACK_ONLY')       # tools/stack_only.py: the scenarios whose description contains this text
    for c in cases_for(prop, tier):
        c = dict(c)
        if only and only not in json.dumps(c):
            continue
        c['bound'] = 2 if tier == 'thorough' else 1
        c['dev'] = 1 if tier == 'thorough' else 0
        if c.get('clients', 1) > 1 or c.get('n', 0) >= 3:
            # 14 threads: two deviations are out of reach (~10^5 schedules of ~0.15 s); one deviation everywhere, and one on top
            # of each starvation schedule in the thorough tier
            c['bound'] = 1
        chess = c['stack'] == 'find' and not c.get('count_all')
        if not chess:
            # free switches (choices when the running thread blocks) explode with three associations or long two-way traffic:
            # there every deviation from the default order counts
            c['count_all'] = True
            c['bound'] = 2 if (tier == 'thorough' and c.get('clients', 1) == 1 and c.get('n', 0) < 3) else 1
        # one task per schedule family (family 0 = preemption-bounded, i = starve the i-th thread of the default run)
        # and the preemption-bounded family is split into PARTS slices of the sub-trees hanging off the default execution
        for part in range(PARTS):
            cs.append(dict(c, family=0, part=(part, PARTS)))
        for fam in range(1, 17):
            cs.append(dict(c, family=fam))
    for res in common.pmap(module, 'run_case', cs, chunk=1):
        for s, m in res['viol']:
            rep.add(common.Viol(s, m, res['case']))
        st = res.get('stats', {})
        tot['schedules'] += st.get('schedules', 0)
        tot['decisions'] += st.get('decisions', 0)
        tot['capped'] += 1 if st.get('capped') else 0
        tot['outcomes'] = max(tot['outcomes'], st.get('distinct_outcomes', 0))
        tot['cases'] += 1 if (res.get('stats', {}).get('families')) else 0
    rep.coverage['part2_whole_stack'] = {
        'what': 'real service callables on real associations with real provider threads over the simulated network, schedules enumerated',
        'scenario_x_schedule_family_runs': tot['cases'], 'schedules': tot['schedules'], 'scheduling_decisions': tot['decisions'],
        'families': 'preemption bound %d (CHESS; all deviations counted for 3-association scenarios) + one starvation schedule per thread%s' % (
            2 if tier == 'thorough' else 1, ' with 1 deviation' if tier == 'thorough' else ''),
        'cases_that_hit_the_execution_cap': tot['capped'], 'max_distinct_outcomes_per_case': tot['outcomes']}
    rep.coverage['schedules'] = rep.coverage.get('schedules', 0) + tot['schedules']
