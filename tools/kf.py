#!/venv/bin/python
"""tools/kf.py fixed <prop> <commit> <what>   |   tools/kf.py known <prop> <id> <what> <sig> [<sig>...]"""
import json, sys
p = '/verif/known_findings.json'
d = json.load(open(p))
if sys.argv[1] == 'fixed':
    _, _, prop, commit, what = sys.argv
    d['findings'].append({'property': prop, 'status': 'fixed', 'commit': commit,
                          'line': 'fixed: property=%s %s %s' % (prop, commit, what)})
else:
    prop, fid, what = sys.argv[2:5]
    d['findings'].append({'property': prop, 'status': 'known', 'id': fid, 'what': what, 'signatures': sys.argv[5:]})
json.dump(d, open(p, 'w'), indent=1)
