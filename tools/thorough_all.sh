#!/bin/bash
# runs every thorough tier once (sequentially), prints exit status and wall time per check
cd "$(dirname "$0")/.."
for id in C01 C02 C03 C04 C05 C06 C07 C08 C09 C10 C11 C12 C13 C14 C15 C16 C17 C18 C19 C20; do
  s=$(date +%s)
  ./check $id --tier thorough > /tmp/thorough_$id.log 2>&1; rc=$?
  e=$(date +%s)
  echo "$id exit=$rc wall=$((e-s))s $(tail -1 /tmp/thorough_$id.log | cut -c1-200)"
done
