#!/venv/bin/python
"""tools/stack_only.py <ID> <tier> <text>  -- run only the whole-stack scenarios (part 2 of C15/C16/C17/C19/C20) of property <ID>
whose JSON description contains <text>, with the bounds of <tier>; prints violations, exit 1 if any.  (Used to re-check a new
scenario with the thorough bounds without repeating the whole thorough run.)"""
import importlib, os, sys
sys.path.insert(0, '/verif')
prop, tier, text = sys.argv[1], sys.argv[2], sys.argv[3]
os.environ['VP_STACK_ONLY'] = text
os.environ.setdefault('VP_NOEVIDENCE', '1')
from vp import common, svc_stack
common.import_repo()
mod = 'vp.checks.' + prop.lower()
rep = common.Report(prop, tier, 0, 'exploration')
svc_stack.extend(rep, prop, tier, 0, mod)
print(rep.coverage.get('part2_whole_stack'))
viols = getattr(rep, 'viols', {})
for sig in list(viols)[:10]:
    print('VIOLATION-SIG', sig, str(viols[sig])[:400])
sys.exit(1 if viols else 0)
