#!/venv/bin/python
"""Re-run every seeded property-breaking change under /verif/seeded against the quick check of its property (and of the
properties listed in EXTRA), update meta.json and write seeded/RESULTS.md.  Usage: tools/reseed.py [ID-prefix ...]"""
import json, os, subprocess, sys, tempfile, shutil, concurrent.futures

SEEDED = '/verif/seeded'
EXTRA = {'C01': ['C02'], 'C02': ['C01'], 'C06': ['C10', 'C08'], 'C10': ['C06'], 'C04': ['C05', 'C12'], 'C05': ['C04', 'C03', 'C12', 'C13'], 'C03': ['C05'],
         'C12': ['C05'], 'C13': ['C05', 'C04', 'C03'], 'C14': ['C13', 'C04'], 'C15': ['C03', 'C07', 'C06', 'C20', 'C09'], 'C20': ['C09', 'C05', 'C16'], 'C17': ['C19'], 'C19': ['C17'], 'C16': ['C18']}


def run_one(name):
    d = os.path.join(SEEDED, name)
    prop = name.split('-')[0]
    patch = os.path.join(d, 'patch.diff')
    s = tempfile.mkdtemp(prefix='vp_scratch.', dir='/tmp')
    res = {'name': name, 'property': prop, 'checks': {}}
    try:
        subprocess.run('git -C /repo archive --format=tar HEAD | tar -x -C %s' % s, shell=True, check=True)
        ap = subprocess.run(['patch', '-p1', '-s', '-i', patch], cwd=s, capture_output=True, text=True)
        if ap.returncode != 0:
            res['error'] = 'patch does not apply to the current tree'
            return res
        t = subprocess.run('/venv/bin/python -m pytest -q -p no:cacheprovider tests/test_dimsemessages.py tests/test_pdu.py 2>&1 | tail -1',
                           shell=True, cwd=s, capture_output=True, text=True).stdout.strip()
        res['tests'] = t
        demo = os.path.join(d, 'demo.py')
        if os.path.exists(demo):
            env = dict(os.environ, VP_REPO=s)
            try:
                dm = subprocess.run(['/venv/bin/python', demo], cwd=s, env=env, capture_output=True, text=True, timeout=600)
                res['demo_exit_with_patch'] = dm.returncode
            except subprocess.TimeoutExpired:
                res['demo_exit_with_patch'] = 'timeout (machine busy)'
        for chk in [prop] + EXTRA.get(prop, []):
            if chk != prop and res['checks'].get(prop, {}).get('exit') == 1 and not os.environ.get('RESEED_ALL_NEIGHBOURS'):
                break      # neighbours are only consulted when the property's own check is silent
            env = dict(os.environ, VP_REPO=s, VP_NOEVIDENCE='1', VP_NPROC=os.environ.get('VP_NPROC_EACH', '4'))
            r = subprocess.run(['./check', chk, '--tier', 'quick'], cwd='/verif', env=env, capture_output=True, text=True)
            first = ''
            lines = r.stdout.splitlines()
            for i, l in enumerate(lines):
                if l.startswith('VIOLATION') and i:
                    first = lines[i - 1].strip()[:200]
                    break
            res['checks'][chk] = {'exit': r.returncode, 'first': first}
    finally:
        shutil.rmtree(s, ignore_errors=True)
    return res


def table():
    """seeded/RESULTS.md from the meta.json files (which every run updates)."""
    names = sorted(n for n in os.listdir(SEEDED) if os.path.isdir(os.path.join(SEEDED, n)))
    rows = []
    own = neigh = none = 0
    for n in names:
        mp = os.path.join(SEEDED, n, 'meta.json')
        if not os.path.exists(mp):
            continue
        m = json.load(open(mp))
        prop = n.split('-')[0]
        det = m.get('detected_by_quick_checks') or []
        if isinstance(det, bool):
            det = [prop] if det else []
        o = prop in det
        own += o
        neigh += (not o and bool(det))
        none += (not det)
        fv = (m.get('first_violation') or {})
        rows.append('| %s | %s | %s | %s | %s | %s | %s |' % (
            n, prop, (m.get('tests_with_patch') or '').split(',')[0], m.get('demo_exit_with_patch'), 'VIOLATION' if o else 'silent',
            ', '.join(d for d in det if d != prop) or '-', (fv.get(prop) or (fv.get(det[0]) if det else '') or '').replace('|', '/')[:150]))
    with open(os.path.join(SEEDED, 'RESULTS.md'), 'w') as fh:
        fh.write('# Seeded property-breaking changes versus the quick checks\n\n(regenerate with tools/reseed.py; `tools/reseed.py --table` rebuilds this file from the meta.json files)\n\n')
        fh.write('%d changes: %d reported by the quick check of their own property, %d only by a neighbouring check, %d by none.\n\n' % (len(rows), own, neigh, none))
        fh.write('| change | property | 70 tests | demo exit | own check | neighbouring checks that fire (consulted only when the own check is silent) | first violation |\n|---|---|---|---|---|---|---|\n')
        fh.write('\n'.join(rows) + '\n')
    print('%d changes: own %d, neighbour only %d, none %d' % (len(rows), own, neigh, none))


def main():
    if '--table' in sys.argv:
        return table()
    names = sorted(n for n in os.listdir(SEEDED) if os.path.isdir(os.path.join(SEEDED, n)))
    if len(sys.argv) > 1:
        names = [n for n in names if any(n.startswith(p) or ('-' + p) in n for p in sys.argv[1:])]
    out = []
    with concurrent.futures.ThreadPoolExecutor(int(os.environ.get('RESEED_PAR', '4'))) as ex:
        for r in ex.map(run_one, names):
            out.append(r)
            own = r['checks'].get(r['property'], {}).get('exit')
            others = [k for k, v in r['checks'].items() if v['exit'] == 1 and k != r['property']]
            print('%-8s own-check-exit=%s also=%s %s' % (r['name'], own, others, r.get('error', '')), flush=True)
            mp = os.path.join(SEEDED, r['name'], 'meta.json')
            meta = json.load(open(mp)) if os.path.exists(mp) else {}
            meta['checks_run'] = sorted(r['checks'])
            meta['detected_by_quick_checks'] = sorted(k for k, v in r['checks'].items() if v['exit'] == 1)
            meta['detected_by_own_property_check'] = own == 1
            meta['first_violation'] = {k: v['first'] for k, v in r['checks'].items() if v['exit'] == 1}
            meta['tests_with_patch'] = r.get('tests')
            meta['demo_exit_with_patch'] = r.get('demo_exit_with_patch')
            if r.get('error'):
                meta['error'] = r['error']
            json.dump(meta, open(mp, 'w'), indent=1)
    if len(sys.argv) == 1:
        with open(os.path.join(SEEDED, 'RESULTS.md'), 'w') as fh:
            fh.write('# Seeded property-breaking changes versus the quick checks\n\n(regenerate with tools/reseed.py)\n\n')
            fh.write('| change | property | 70 tests | demo exit | own check | neighbouring checks that fire (consulted only when the own check is silent) | first violation |\n|---|---|---|---|---|---|---|\n')
            for r in out:
                own = r['checks'].get(r['property'], {})
                fh.write('| %s | %s | %s | %s | %s | %s | %s |\n' % (
                    r['name'], r['property'], (r.get('tests') or '').split(',')[0], r.get('demo_exit_with_patch'),
                    {1: 'VIOLATION', 0: 'silent', 2: 'harness error'}.get(own.get('exit'), r.get('error', '?')),
                    ', '.join(k for k, v in r['checks'].items() if v['exit'] == 1 and k != r['property']) or '-',
                    (own.get('first') or '').replace('|', '/')[:150]))
    missed = [r['name'] for r in out if r['checks'].get(r['property'], {}).get('exit') != 1]
    print('not detected by own check:', missed)


main()
