#!/bin/bash
# tools/mutant.sh <patch.diff> <ID> [<ID>...]   -- apply patch to a scratch copy of /repo, run the 70 stable tests,
# run the given quick checks against the copy (VP_REPO), print exit codes, delete the copy.
# env: TIER=quick|thorough, KEEP=1 keeps nothing anyway (copy is always removed)
set -u
PATCH="$(readlink -f "$1")"; shift
S="$(mktemp -d /tmp/vp_scratch.XXXXXX)"
trap 'rm -rf "$S"' EXIT
git -C /repo archive --format=tar HEAD | tar -x -C "$S"
# include uncommitted changes of /repo (checks must follow the working tree)
(cd /repo && git diff HEAD) | (cd "$S" && patch -p1 -s >/dev/null 2>&1 || true)
(cd "$S" && patch -p1 -s < "$PATCH") || { echo "PATCH-FAILED"; exit 3; }
T=$(cd "$S" && /venv/bin/python -m pytest -q -p no:cacheprovider -x tests/test_dimsemessages.py tests/test_pdu.py 2>&1 | tail -1)
echo "tests: $T"
cd /verif
for ID in "$@"; do
  VP_REPO="$S" VP_NOEVIDENCE=1 ./check "$ID" --tier "${TIER:-quick}" > "$S/out.$ID" 2>&1; rc=$?
  echo "check $ID exit=$rc  $(grep -c '^VIOLATION' "$S/out.$ID") violation lines; first: $(grep -m1 -B1 '^VIOLATION' "$S/out.$ID" | head -1 | cut -c1-260)"
  [ "$rc" = 2 ] && tail -5 "$S/out.$ID"
done
