#!/bin/bash
# tools/ingest.sh <ID> [checks...]  -- verify the sub-agent's mutants in its worktree /tmp/wt_<ID>, run our checks against
# them, and store confirmed ones under /verif/seeded/<ID>-<i>/ . Default check = <ID>.
ID="$1"; shift
CHECKS="${*:-$ID}"
WT=/tmp/wt_$ID
for d in "$WT"/_mut/*/; do
  i=$(basename "$d")
  [ -f "$d/patch.diff" ] || continue
  echo "=== $ID-${TAG:-}$i"
  git -C "$WT" checkout -q -- . 2>/dev/null
  d0=$(cd "$WT" && timeout 120 /venv/bin/python "$d/demo.py" >/dev/null 2>&1; echo $?)
  if ! git -C "$WT" apply "$d/patch.diff" 2>/dev/null; then echo "  patch does not apply in worktree"; continue; fi
  t=$(cd "$WT" && /venv/bin/python -m pytest -q -p no:cacheprovider tests/test_dimsemessages.py tests/test_pdu.py 2>&1 | tail -1)
  d1=$(cd "$WT" && timeout 120 /venv/bin/python "$d/demo.py" >/dev/null 2>&1; echo $?)
  git -C "$WT" checkout -q -- .
  echo "  demo clean=$d0 mutated=$d1 ; tests: $t"
  ok=no; [ "$d0" = 0 ] && [ "$d1" != 0 ] && echo "$t" | grep -q '^70 passed' && ok=yes
  if [ -n "${SKIPCHECK:-}" ]; then res="(checks skipped; run tools/reseed.py)"; else res=$(/verif/tools/mutant.sh "$d/patch.diff" $CHECKS 2>&1); fi
  echo "$res" | sed 's/^/  /' | cut -c1-330
  if [ "$ok" = yes ]; then
    out=/verif/seeded/$ID-${TAG:-}$i; mkdir -p "$out"
    cp "$d/patch.diff" "$out/patch.diff"; cp "$d/notes.md" "$out/notes.md" 2>/dev/null
    sed "s#'$WT'#__import__('os').environ.get('VP_REPO', '/repo')#g; s#\"$WT\"#__import__('os').environ.get('VP_REPO', '/repo')#g" "$d/demo.py" > "$out/demo.py"
    caught=$(echo "$res" | grep -c 'exit=1')
    /venv/bin/python - "$out" "$ID" "$i" "$CHECKS" "$caught" <<'PY'
import json, sys, os
out, pid, i, checks, caught = sys.argv[1:6]
notes = open(os.path.join(out, 'notes.md')).read() if os.path.exists(os.path.join(out, 'notes.md')) else ''
json.dump({'property': pid, 'id': '%s-%s%s' % (pid, os.environ.get('TAG', ''), i), 'origin': 'independent sub-agent given only the property text and a scratch worktree',
           'needs_to_manifest': notes[:1500],
           'verified': 'patch applied in scratch worktree: 70 stable tests pass; demo.py exit 0 on clean tree, non-zero with the patch',
           'checks_run': checks.split(), 'detected_by_quick_checks': int(caught) > 0}, open(os.path.join(out, 'meta.json'), 'w'), indent=1)
PY
    echo "  stored in $out"
  else
    echo "  NOT CONFIRMED (kept out of /verif/seeded)"
  fi
done
