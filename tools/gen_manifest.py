#!/venv/bin/python
"""Regenerates /verif/MANIFEST.json from the table below (keeps it valid at all times)."""
import json, os, sys
HERE = os.path.dirname(os.path.dirname(os.path.abspath(__file__)))
sys.path.insert(0, HERE)
from vp.manifest_table import CHECKS, NOT_APPLICABLE, ENGINES, HOOK_COMMITS

props = [json.loads(l)['id'] for l in open(os.path.join(HERE, 'properties.jsonl'))]
checks = []
for pid in props:
    if pid not in CHECKS:
        continue
    c = CHECKS[pid]
    checks.append({
        'property_id': pid,
        'quick_cmd': './check %s --tier quick' % pid,
        'thorough_cmd': './check %s --tier thorough' % pid,
        'evidence_file': '/verif/evidence/%s.json' % pid,
        'replay_cmd_template': './check %s --replay {path}' % pid,
        'engine': c['engine'],
        'level_claimed': {'category': c['level'], 'text': c['text'], 'design_ref': c['design_ref']},
        'level_note': c['note'],
        'technique': c['technique'],
    })
na = [{'property_id': p, 'reason': NOT_APPLICABLE.get(p, 'check not built yet (work in progress in this session); no claim is made')}
      for p in props if p not in CHECKS]
man = {
    'version': 1,
    'setup_cmd': './setup.sh',
    'hooks': {
        'guard': 'PYNETDICOM2_VERIF',
        'enable': 'no source hooks: every seam is a run-time attribute patch applied by the harness (DESIGN.md 2.7); the guard variable is reserved and currently guards nothing',
        'baseline_off_cmd': 'cd /repo && env -u PYNETDICOM2_VERIF /venv/bin/python -m pytest -ra -q -p no:cacheprovider --timeout=900 --continue-on-collection-errors',
        'source_commits': HOOK_COMMITS,
        'add_only': True,
    },
    'engines': ENGINES,
    'checks': checks,
    'not_applicable': na,
    'notes': 'All checks: ./check <ID> [--tier quick|thorough] [--replay file]; exit 0 held / 1 VIOLATION / 2 HARNESS-ERROR. Known findings: /verif/known_findings.json. Seeded property-breaking changes: /verif/seeded/.',
}
with open(os.path.join(HERE, 'MANIFEST.json'), 'w') as fh:
    json.dump(man, fh, indent=1)
print('MANIFEST.json: %d checks, %d not_applicable' % (len(checks), len(na)))
