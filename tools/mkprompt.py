#!/venv/bin/python
"""tools/mkprompt.py <ID> <worktree> -> prompt text for a mutation sub-agent (only the property text + worktree)."""
import json, sys
pid, wt = sys.argv[1], sys.argv[2]
for l in open('/verif/properties.jsonl'):
    d = json.loads(l)
    if d['id'] == pid:
        break
print(f"""You are helping to evaluate a verification effort for the Python library pynetdicom2 (a pure-Python DICOM network protocol library). Your job: write realistic *property-breaking* code changes (seeded defects) for ONE semantic property of the library.

Your private scratch checkout (a git worktree of the library) is at: {wt}
Work ONLY inside that directory. Never touch /repo or /verif (do not read or write there). Do not commit anything.

The property that your changes must break:

  Title: {d['title']}
  Statement: {d['statement']}
  Quantified over: {d['quantifier']['text']}
  Why the existing tests cannot settle it: {d['why_tests_cant']}
  Code it is anchored in: {json.dumps(d['anchors'].get('mechanism', []))}
  Files: {d['anchors']['files']}

What I need from you: THREE different, independent changes to the library source (under {wt}/pynetdicom2/), each of which
  (a) still imports/compiles, and the existing stable test-suite still passes with it:
        cd {wt} && /venv/bin/python -m pytest -q -p no:cacheprovider tests/test_dimsemessages.py tests/test_pdu.py      (must report 70 passed)
  (b) breaks the property above in a way a user of the library could be bitten by, and looks like a plausible programming mistake or careless refactoring (off-by-one, wrong variable, lost update, shared mutable state, wrong branch order, cursor/offset error, stale state carried between steps, two sites that each look fine alone, ...). Not sabotage that would be obvious on first use.
  (c) needs something SPECIFIC to manifest: a particular input value or boundary, a particular multi-step sequence of operations, a particular interleaving or arrival pattern, a particular configuration, a fault at a particular point. Changes that break every ordinary use at once are NOT wanted; ordinary happy-path use should keep working.
  (d) comes with a demonstration: a small stand-alone Python program demo.py that exits 0 on the unchanged checkout and exits non-zero (prints what went wrong) with your change applied. The demo must put the worktree first on sys.path (sys.path.insert(0, '{wt}')) because /venv also has an installed copy of pynetdicom2 in site-packages, and must assert that pynetdicom2.__file__ starts with '{wt}'. Use /venv/bin/python. The demo must be deterministic, need no network (in-memory / localhost-free if at all possible; if you need sockets use socket.socketpair()), and finish within ~20 s.

The three changes should differ in kind (touch different functions/mechanisms of the anchored code, need different triggers).

Deliver each change i = 1, 2, 3 as files in {wt}/_mut/<i>/ :
   patch.diff   - `git diff` output of ONLY that change relative to the clean checkout (apply-able with `git apply` from the checkout root)
   demo.py      - the demonstration
   notes.md     - 5-10 lines: what the change is, why it breaks the property, what exactly is needed for it to manifest, and the commands you ran with their results (tests with the change: 70 passed; demo without change: exit 0; demo with change: exit non-zero)
Between changes restore the checkout with `git -C {wt} checkout -- .` (the _mut directory is untracked and survives). Leave the checkout clean (no change applied) when you finish.
Verify everything yourself by actually running the commands. Finish with a short summary listing the three changes.""")
